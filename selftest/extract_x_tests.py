#!/usr/bin/env python3
"""Extracts (program, input, expected stdout / exit value) triples from the repository's own unit tests
(tests/unit/x_features.cpp, x_programs.cpp) into selftest/x_expectations.json.  Run at development time; the JSON is committed as data
and used to check that the reference interpreter agrees with the project's own statements about X wherever it gives a verdict."""
import json, re, sys, os
REPO = sys.argv[1] if len(sys.argv) > 1 else "/repo"
out = []

def cstr(s):
    # decode a C string literal body
    return bytes(s, "latin1").decode("unicode_escape")

def parse_literal(text, pos):
    """parse a C++ string literal (possibly raw, possibly concatenated) starting at pos; returns (value, endpos)"""
    val = ""
    i = pos
    got = False
    while True:
        while i < len(text) and text[i] in " \t\r\n": i += 1
        if text.startswith('R"(', i):
            e = text.index(')"', i + 3); val += text[i + 3:e]; i = e + 2; got = True
        elif i < len(text) and text[i] == '"':
            j = i + 1; s = ""
            while text[j] != '"':
                if text[j] == "\\": s += text[j:j + 2]; j += 2
                else: s += text[j]; j += 1
            val += cstr(s); i = j + 1; got = True
        else:
            break
    return (val if got else None), i

for fn in ("x_features.cpp", "x_programs.cpp"):
    text = open(os.path.join(REPO, "tests/unit", fn), encoding="latin1").read()
    for m in re.finditer(r"BOOST_AUTO_TEST_CASE\((\w+)\)\s*\{", text):
        name = m.group(1)
        start = m.end()
        nxt = text.find("BOOST_AUTO_TEST_CASE(", start)
        body = text[start: nxt if nxt >= 0 else len(text)]
        if "for (" in body or "boost::format" in body or "CHECK_THROW" in body:
            continue
        progs = {}
        for pm in re.finditer(r"auto\s+(\w+)\s*=\s*", body):
            v, e = parse_literal(body, pm.end())
            if v is not None: progs[pm.group(1)] = v
        # sequence of statements: remember the last run, attach output expectations
        last = None
        for sm in re.finditer(r"(BOOST_TEST\()?\s*(runXProgramSrc|runXProgramFile)\(([^;]*?)\)\s*(==\s*([^;]*?))?\)?;|BOOST_TEST\(simOutBuffer\.str\(\)\s*==\s*", body):
            if sm.group(2):
                args = sm.group(3)
                kind = sm.group(2)
                src = None; inp = ""
                if kind == "runXProgramSrc":
                    am = re.match(r"\s*(\w+)\s*(,\s*(.*))?$", args, re.S)
                    if not am or am.group(1) not in progs: last = None; continue
                    src = progs[am.group(1)]
                    if am.group(3):
                        v, _ = parse_literal(am.group(3), 0)
                        if v is None: last = None; continue
                        inp = v
                else:
                    am = re.match(r'\s*getXTestPath\("([^"]+)"\)\s*(,\s*(.*))?$', args, re.S)
                    if not am: last = None; continue
                    src = open(os.path.join(REPO, "tests/x", am.group(1)), encoding="latin1").read()
                    if am.group(3):
                        a3 = am.group(3).strip()
                        if a3 in progs: inp = progs[a3]
                        else:
                            v, _ = parse_literal(a3, 0)
                            if v is None: last = None; continue
                            inp = v
                ent = {"test": name, "file": fn, "source": src, "input_hex": inp.encode("latin1").hex()}
                if sm.group(5) is not None:
                    ev = sm.group(5).strip().rstrip(")").strip()
                    cm = re.match(r"^'(\\?.)'$", ev)
                    if cm: ent["exit"] = ord(cstr(cm.group(1)))
                    elif re.match(r"^-?\d+$", ev): ent["exit"] = int(ev)
                    else: ent = None
                if ent is not None:
                    out.append(ent); last = ent
                else:
                    last = None
            else:
                v, _ = parse_literal(body, sm.end())
                if v is not None and last is not None:
                    last["stdout_hex"] = v.encode("latin1").hex()
json.dump(out, open(os.path.join(os.path.dirname(os.path.abspath(__file__)), "x_expectations.json"), "w"), indent=0)
print(len(out), "expectations;", sum(1 for e in out if "exit" in e), "with exit value;", sum(1 for e in out if "stdout_hex" in e), "with stdout")
