// Narrow API over the repository's hextb.cpp (compiled with -Dmain=hextb_main): the file's own load(), run(), handleSyscall() and global `io` are used unmodified.
#pragma once
#include <cstddef>
#include <cstdint>
#include <string>

namespace tb {
struct Model {
  void *ctx = nullptr, *top = nullptr;      // unique_ptr<VerilatedContext>*, unique_ptr<Vhex_pkg>*
  uint32_t *pc = nullptr, *areg = nullptr, *breg = nullptr, *oreg = nullptr, *mem = nullptr;
  size_t memWords = 0;
};
// randReset: 0 all zeros, 1 all ones, 2 randomised with `seed` (as hextb's main does)
Model create(int randReset, unsigned seed);
void load(Model &m, const char *filename);                                   // hextb.cpp::load (prints the banner to std::cout)
int run(Model &m, bool trace, size_t maxCycles, int *kind, std::string *err);  // hextb.cpp::run inside main's try/catch
int tb_main(int argc, const char **argv);
void close_streams();   // closes (flushes) the simin/simout files the testbench's global HexSimIO has opened                                    // hextb.cpp::main
}  // namespace tb
