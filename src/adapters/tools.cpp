// The only translation unit that includes the repository's tool headers.  Built with -fno-access-control so that
// private state can be planted and inspected without editing the repository, and -fno-lifetime-dse so that fill
// patterns planted before placement-new survive construction.
#include <cassert>
#include <sstream>
#include <iostream>
#include <new>

#include "hex.hpp"
#include "hexasm.hpp"
#include "xcmp.hpp"
#include "hexsim.hpp"
#include "hexsimio.hpp"

#include "adapters/tools.hpp"

namespace ad {

namespace {
struct CerrCapture {
  std::ostringstream buf;
  std::streambuf *old;
  CerrCapture() : old(std::cerr.rdbuf(buf.rdbuf())) {}
  ~CerrCapture() { std::cerr.rdbuf(old); }
};
}  // namespace

XResult xcompile(const std::string &src, XAction action, const std::string &outFile, bool isFile) {
  XResult r;
  std::ostringstream out;
  CerrCapture cap;
  xcmp::DriverAction act;
  switch (action) {
  case X_TOKENS: act = xcmp::DriverAction::EMIT_TOKENS; break;
  case X_TREE: act = xcmp::DriverAction::EMIT_TREE; break;
  case X_OPT_TREE: act = xcmp::DriverAction::EMIT_OPTIMISED_TREE; break;
  case X_INTER: act = xcmp::DriverAction::EMIT_INTERMEDIATE_INSTS; break;
  case X_LOWERED: act = xcmp::DriverAction::EMIT_LOWERED_INSTS; break;
  case X_OPTIMISED: act = xcmp::DriverAction::EMIT_OPTIMISED_INSTS; break;
  case X_ASM: act = xcmp::DriverAction::EMIT_ASM; break;
  default: act = xcmp::DriverAction::EMIT_BINARY; break;
  }
  try {
    // xcmp.cpp: main() { Driver driver(std::cout); try { ... return driver.runCatchExceptions(...); } catch (std::exception&) {...return 1;} }
    xcmp::Driver driver(out);
    r.status = driver.runCatchExceptions(act, src, isFile, outFile, false);
    if (r.status != 0) { r.kind = 1; }
  } catch (const std::exception &e) {
    std::cerr << boost::format("Error: %s\n") % e.what();
    r.status = 1; r.kind = 2;
  } catch (...) {
    r.status = 1; r.kind = 3;
  }
  r.out = out.str();
  r.err = cap.buf.str();
  return r;
}

static void finishAsm(AResult &r, std::vector<std::unique_ptr<hexasm::Directive>> &program, int modes, const std::string &outFile) {
  hexasm::CodeGen codeGen(program);
  r.headerBytes = (long)codeGen.programSizeBytes;
  if (modes & A_LISTING) {
    std::ostringstream o; codeGen.emitProgramText(o); r.listing = o.str();
  }
  if (modes & A_BIN) {
    std::ostringstream o; codeGen.emitProgramBin(o); r.bin = o.str();
  }
  if (modes & A_FILE) {
    codeGen.emitBin(outFile);
    std::ifstream f(outFile, std::ios::binary); std::stringstream ss; ss << f.rdbuf(); r.file = ss.str();
  }
}

AResult assemble_text(const std::string &src, int modes, const std::string &outFile) {
  AResult r;
  try {
    hexasm::Lexer lexer;
    hexasm::Parser parser(lexer);
    try {
      if (modes & A_TOKENS) {
        hexasm::Lexer lx; lx.loadBuffer(src);
        std::ostringstream o; lx.emitTokens(o); r.tokens = o.str();
      }
      if (modes & (A_BIN | A_FILE | A_LISTING)) {
        lexer.loadBuffer(src);
        auto program = parser.parseProgram();
        finishAsm(r, program, modes, outFile);
      }
    } catch (const hexutil::Error &e) {
      r.status = 1; r.kind = 1; r.hasLocation = e.hasLocation(); r.err = e.what();
    }
  } catch (const std::exception &e) {
    r.status = 1; r.kind = 2; r.err = e.what();
  } catch (...) {
    r.status = 1; r.kind = 3;
  }
  return r;
}

static hexasm::Token opcTok(int opc) {
  static const hexasm::Token t[12] = {hexasm::Token::LDAM, hexasm::Token::LDBM, hexasm::Token::STAM, hexasm::Token::LDAC,
                                      hexasm::Token::LDBC, hexasm::Token::LDAP, hexasm::Token::LDAI, hexasm::Token::LDBI,
                                      hexasm::Token::STAI, hexasm::Token::BR,   hexasm::Token::BRZ,  hexasm::Token::BRN};
  return t[opc];
}

AResult assemble_items(const std::vector<Item> &items, int modes, const std::string &outFile) {
  AResult r;
  try {
    try {
      std::vector<std::unique_ptr<hexasm::Directive>> program;
      for (auto &it : items) {
        switch (it.kind) {
        case 0: program.push_back(std::make_unique<hexasm::Label>(hexasm::Token::IDENTIFIER, it.name)); break;
        case 1: program.push_back(std::make_unique<hexasm::InstrImm>(opcTok(it.opc), it.value)); break;
        case 2: program.push_back(std::make_unique<hexasm::InstrLabel>(opcTok(it.opc), it.name, it.relative)); break;
        case 3: program.push_back(std::make_unique<hexasm::Data>(hexasm::Token::DATA, it.value)); break;
        case 4: {
          static const hexasm::Token o[4] = {hexasm::Token::BRB, hexasm::Token::ADD, hexasm::Token::SUB, hexasm::Token::SVC};
          program.push_back(std::make_unique<hexasm::InstrOp>(hexasm::Token::OPR, o[it.opc & 3])); break;
        }
        case 5: program.push_back(std::make_unique<hexasm::Proc>(hexasm::Token::PROC, it.name)); break;
        case 6: program.push_back(std::make_unique<hexasm::Func>(hexasm::Token::FUNC, it.name)); break;
        }
      }
      finishAsm(r, program, modes, outFile);
    } catch (const hexutil::Error &e) {
      r.status = 1; r.kind = 1; r.hasLocation = e.hasLocation(); r.err = e.what();
    }
  } catch (const std::exception &e) {
    r.status = 1; r.kind = 2; r.err = e.what();
  } catch (...) {
    r.status = 1; r.kind = 3;
  }
  return r;
}

void assemble_imm_block(int opc, const int32_t *vals, size_t n, std::string &bytes, std::vector<uint32_t> &sizes, uint32_t &programSizeBytes) {
  std::vector<std::unique_ptr<hexasm::Directive>> program;
  program.reserve(n + 1);
  auto tok = opcTok(opc);
  for (size_t i = 0; i < n; i++) program.push_back(std::make_unique<hexasm::InstrImm>(tok, vals[i]));
  hexasm::CodeGen codeGen(program);
  sizes.resize(n);
  for (size_t i = 0; i < n; i++) sizes[i] = program[i]->getSize();
  programSizeBytes = codeGen.programSizeBytes;
  std::ostringstream o;
  codeGen.emitProgramBin(o);
  bytes = o.str();
}

// ---------------------------------------------------------------- hexsim
size_t sim_sizeof() { return sizeof(hexsim::Processor); }

static void fillView(SimView &v, hexsim::Processor *p) {
  v.obj = p;
  v.pc = &p->pc; v.areg = &p->areg; v.breg = &p->breg; v.oreg = &p->oreg;
  v.mem = p->memory.data(); v.memWords = p->memory.size();
  v.running = &p->running; v.tracing = &p->tracing; v.truncateInputs = &p->truncateInputs;
  v.exitCode = &p->exitCode; v.cycles = &p->cycles; v.maxCycles = &p->maxCycles;
}

SimView sim_create(void *buf, std::istream &in, std::ostream &out, size_t maxCycles) {
  SimView v;
  hexsim::Processor *p = buf ? new (buf) hexsim::Processor(in, out, maxCycles) : new hexsim::Processor(in, out, maxCycles);
  fillView(v, p);
  return v;
}
void sim_destroy(SimView &v, bool placed) {
  auto p = static_cast<hexsim::Processor *>(v.obj);
  if (placed) p->~Processor(); else delete p;
  v.obj = nullptr;
}
void sim_load(SimView &v, const char *filename) { static_cast<hexsim::Processor *>(v.obj)->load(filename); }
int sim_run(SimView &v, int *kind, std::string *err) {
  try {
    if (kind) *kind = 0;
    return static_cast<hexsim::Processor *>(v.obj)->run();
  } catch (const std::exception &e) {
    if (kind) *kind = 2;
    if (err) *err = e.what();
    return 1;
  }
}
void sim_set_tracing(SimView &v, bool on) { static_cast<hexsim::Processor *>(v.obj)->setTracing(on); }
std::vector<std::pair<std::string, unsigned>> sim_symbols(SimView &v) { return static_cast<hexsim::Processor *>(v.obj)->debugInfo; }

}  // namespace ad
