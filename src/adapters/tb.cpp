// Includes the repository's testbench source itself; built with -Dmain=hextb_main against the Verilated hex model (prefix Vhex_pkg).
#include "hextb.cpp"
#include <verilated_sym_props.h>
#include <new>
#include "adapters/tb.hpp"

namespace tb {
static void *var(VerilatedContext *c, const char *scope, const char *name) {
  const VerilatedScope *s = c->scopeFind(scope);
  if (!s) { fprintf(stderr, "[tb] scope %s not found\n", scope); _exit(2); }
  VerilatedVar *v = s->varFind(name);
  if (!v) { fprintf(stderr, "[tb] variable %s.%s not found\n", scope, name); _exit(2); }
  return v->datap();
}
Model create(int randReset, unsigned seed) {
  Model m;
  // as main(): context, debug(0), randReset, traceEverOn, commandArgs, model "TOP"
  auto *ctxp = new std::unique_ptr<VerilatedContext>(new VerilatedContext);
  (*ctxp)->debug(0);
  (*ctxp)->threads(1);
  (*ctxp)->randReset(randReset);
  (*ctxp)->randSeed(seed);
  (*ctxp)->traceEverOn(true);
  const char *av[] = {"hextb"};
  (*ctxp)->commandArgs(1, av);
  auto *topp = new std::unique_ptr<Vhex_pkg>(new Vhex_pkg{ctxp->get(), "TOP"});
  m.ctx = ctxp; m.top = topp;
  m.pc = (uint32_t *)var(ctxp->get(), "TOP.hex.u_processor", "pc_q");
  m.areg = (uint32_t *)var(ctxp->get(), "TOP.hex.u_processor", "areg_q");
  m.breg = (uint32_t *)var(ctxp->get(), "TOP.hex.u_processor", "breg_q");
  m.oreg = (uint32_t *)var(ctxp->get(), "TOP.hex.u_processor", "oreg_q");
  m.mem = (uint32_t *)var(ctxp->get(), "TOP.hex.u_memory", "memory_q");
  m.memWords = 1u << 19;
  return m;
}
void load(Model &m, const char *filename) { ::load(filename, *static_cast<std::unique_ptr<Vhex_pkg> *>(m.top)); }
int run(Model &m, bool trace, size_t maxCycles, int *kind, std::string *err) {
  try {
    if (kind) *kind = 0;
    return ::run(*static_cast<std::unique_ptr<VerilatedContext> *>(m.ctx), *static_cast<std::unique_ptr<Vhex_pkg> *>(m.top), trace, maxCycles);
  } catch (std::exception &e) {
    std::cerr << "Error: " << e.what() << "\n";
    if (kind) *kind = 2;
    if (err) *err = e.what();
    return 1;
  }
}
int tb_main(int argc, const char **argv) { return hextb_main(argc, argv); }
void close_streams() { io.~HexSimIO(); new (&io) hex::HexSimIO(std::cin, std::cout); }
}  // namespace tb
