// Narrow API over the repository's header-only tools (hexasm.hpp, xcmp.hpp, hexsim.hpp).
// The implementation (tools.cpp) is the only TU that includes repository headers; it is rebuilt from the working tree.
#pragma once
#include <cstdint>
#include <iosfwd>
#include <string>
#include <vector>

namespace ad {

// ---------------------------------------------------------------- xcmp
enum XAction { X_TOKENS, X_TREE, X_OPT_TREE, X_INTER, X_LOWERED, X_OPTIMISED, X_ASM, X_BINARY };
struct XResult {
  int status = 0;          // what xcmp.cpp's main would return: 0 ok, 1 diagnosed
  int kind = 0;            // 0 ok, 1 hexutil::Error (located or not), 2 other std::exception, 3 non-std exception
  bool hasLocation = false;
  std::string out;         // text written to the driver's output stream
  std::string err;         // text written to std::cerr
};
// Mirrors xcmp.cpp: Driver(out).runCatchExceptions(action, src, /*inputIsFilename=*/isFile, outFile) inside main's try/catch.
XResult xcompile(const std::string &src, XAction action, const std::string &outFile, bool isFile = false);

// ---------------------------------------------------------------- hexasm
struct AResult {
  int status = 0;          // as hexasm.cpp's control flow: 0 emitted, 1 error path
  int kind = 0;            // 0 ok, 1 hexutil::Error, 2 other std::exception, 3 non-std
  bool hasLocation = false;
  std::string bin;         // emitProgramBin bytes (no header, no debug info)
  std::string file;        // full file as emitBin writes it (header + image + debug) when requested
  std::string listing;     // emitProgramText
  std::string tokens;      // emitTokens
  std::string err;         // e.what()
  long layoutSteps = 0;
  long headerBytes = -1;    // programSizeBytes as CodeGen computed it (what emitBin writes into the header, in bytes)
};
enum AMode { A_BIN = 1, A_FILE = 2, A_LISTING = 4, A_TOKENS = 8 };
AResult assemble_text(const std::string &src, int modes, const std::string &outFile = "");

// Directive-level (object path): kind 0 label, 1 imm instr, 2 label-ref instr, 3 DATA, 4 OPR, 5 PROC, 6 FUNC
struct Item { int kind; int opc; int32_t value; std::string name; bool relative; };
// opc: hex opcode 0..11 for instructions; for OPR: 0 BRB 1 ADD 2 SUB 3 SVC
AResult assemble_items(const std::vector<Item> &items, int modes, const std::string &outFile = "");

// C04 fast path: n InstrImm directives of opcode `opc` with values vals[0..n); returns program bytes and each getSize().
void assemble_imm_block(int opc, const int32_t *vals, size_t n, std::string &bytes, std::vector<uint32_t> &sizes, uint32_t &programSizeBytes);

// ---------------------------------------------------------------- hexsim
struct SimView {
  void *obj = nullptr;
  uint32_t *pc = nullptr, *areg = nullptr, *breg = nullptr, *oreg = nullptr, *mem = nullptr;
  bool *running = nullptr, *tracing = nullptr, *truncateInputs = nullptr;
  int *exitCode = nullptr;
  size_t *cycles = nullptr, *maxCycles = nullptr;
  size_t memWords = 0;
};
size_t sim_sizeof();
// Construct a hexsim::Processor in `buf` (placement new; buf >= sim_sizeof(), suitably aligned) or on the heap when buf==nullptr.
SimView sim_create(void *buf, std::istream &in, std::ostream &out, size_t maxCycles);
void sim_destroy(SimView &v, bool placed);
void sim_load(SimView &v, const char *filename);
// run(): returns the value Processor::run() returns; kind: 0 returned, 2 std::exception (what in *err)
int sim_run(SimView &v, int *kind, std::string *err);
void sim_set_tracing(SimView &v, bool on);
// Debug symbols as loaded
std::vector<std::pair<std::string, unsigned>> sim_symbols(SimView &v);

}  // namespace ad
