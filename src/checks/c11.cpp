// C11 — compilation and assembly are deterministic functions of the source.
// In-process: every source x heap fill x allocation shift x stack fill x predecessor compilation; process level: the built xcmp/hexasm under
// MALLOC_PERTURB_ x environment size x ASLR on/off.  Binary, listing and diagnostic text must be byte-identical across all configurations.
#define ROBUST_DEFINE_NEW 1
#include <memory>
#include <dirent.h>
#include "common/robust.hpp"
#include "common/mc.hpp"
#include "common/xgen.hpp"
#include "common/asmgen.hpp"
#include "common/xtok.hpp"
#include "adapters/tools.hpp"

using namespace mc;
static Ctx ctx;

struct Src { std::string name, text; bool isAsm; };
struct Result { int status; std::string bin, listing, err; bool operator==(const Result &o) const { return status == o.status && bin == o.bin && listing == o.listing && err == o.err; } };

// errno is process-global state a tool can leave behind and read back; the harness's own file handling between two tool calls would overwrite it,
// so it is carried from the end of one tool call to the start of the next (g_errno = 0 starts a fresh history)
static int g_errno = 0;
// cleanBefore = false: the output file of the previous tool call is still there (a tool that does not truncate what it overwrites then shows a stale tail)
static Result produce(const Src &s, const std::string &outPath, bool cleanBefore = true, bool cleanAfter = true) {
  Result r;
  if (cleanBefore) unlink(outPath.c_str());
  if (s.isAsm) {
    errno = g_errno;
    auto a = ad::assemble_text(s.text, ad::A_FILE | ad::A_LISTING, outPath);
    g_errno = errno;
    r.status = a.kind; r.bin = a.file; r.listing = a.listing; r.err = a.err;
  } else {
    errno = g_errno;
    auto a = ad::xcompile(s.text, ad::X_BINARY, outPath);
    g_errno = errno;
    r.status = a.status; r.err = a.err; if (a.status == 0) r.bin = slurp(outPath);
    errno = g_errno;
    auto l = ad::xcompile(s.text, ad::X_ASM, outPath);
    g_errno = errno;
    r.listing = l.out; if (l.status != a.status) r.err += "|listing status " + std::to_string(l.status);
  }
  if (cleanAfter) unlink(outPath.c_str());
  return r;
}
static int runProc(const std::vector<std::string> &argv, const std::vector<std::string> &envv, const std::string &cwd, std::string &out, std::string &err, double timeout) {
  std::string op = cwd + "/stdout.txt", ep = cwd + "/stderr.txt";
  pid_t p = fork();
  if (p == 0) {
    if (chdir(cwd.c_str())) _exit(126);
    std::vector<char *> a; for (auto &s : argv) a.push_back((char *)s.c_str()); a.push_back(nullptr);
    std::vector<char *> e; for (auto &s : envv) e.push_back((char *)s.c_str()); e.push_back(nullptr);
    if (!freopen("/dev/null", "rb", stdin) || !freopen(op.c_str(), "wb", stdout) || !freopen(ep.c_str(), "wb", stderr)) _exit(126);
    execve(a[0], a.data(), e.data()); _exit(127);
  }
  double t0 = now(); int status = 0;
  while (true) { pid_t r = waitpid(p, &status, WNOHANG); if (r == p) break; if (now() - t0 > timeout) { kill(p, SIGKILL); waitpid(p, &status, 0); return -999; } usleep(500); }
  out = slurp(op); err = slurp(ep);
  return WIFEXITED(status) ? WEXITSTATUS(status) : -WTERMSIG(status);
}

int main(int argc, char **argv) {
  ctx = parse_args("C11", argc, argv, 600, 1700);
  Report rep; rep.ctx = ctx; bool th = ctx.thorough();
  // ---- sources
  std::vector<Src> srcs;
  auto listDir = [&](const std::string &d, const std::string &suffix) { std::vector<std::string> r; DIR *dir = opendir(d.c_str()); if (dir) { while (auto e = readdir(dir)) { std::string n = e->d_name; if (n.size() > suffix.size() && n.substr(n.size() - suffix.size()) == suffix) r.push_back(n); } closedir(dir); } std::sort(r.begin(), r.end()); return r; };
  for (auto &n : listDir(ctx.repo + "/tests/x", ".x")) srcs.push_back({n, slurp(ctx.repo + "/tests/x/" + n), false});
  for (auto &n : listDir(ctx.repo + "/tests/asm", ".S")) srcs.push_back({n, slurp(ctx.repo + "/tests/asm/" + n), true});
  { xgen::Corpus C; C.build(false); uint64_t want = th ? 6000 : 600; for (uint64_t i = 0; i < C.total; i += C.total / want + 1) { std::string sh, fam; std::string s = C.make(i, &sh, &fam); srcs.push_back({"corpus:" + fam, s, false}); } }
  { asmgen::Corpus A; A.build(3, 2, {0, 1, 3, 14, 15, 16, 254, 255}, true); uint64_t want = th ? 3000 : 300; for (uint64_t i = 0; i < A.total; i += A.total / want + 1) srcs.push_back({"asm-corpus", asmgen::render(A.make(i)), true}); }
  // semantically unusual sources (accepted or rejected: the diagnostic text must be deterministic too)
  for (const char *s : {"var g; val v = g; proc main() is 0(v)", "val a = b; val b = 1; proc main() is 0(a)", "val v = 1; val w = v + v; array a[w]; proc main() is { a[1] := w; 0(a[1]) }",
                        "proc main() is val l = 5; var x; { x := l; 0(x + l) }", "var x; proc p(val x) is 0(x) proc main() is { x := 1; p(2) }", "proc main() is 0(\"\")", "proc p(array s) is 0(s[0]) proc main() is p(\"\")",
                        "proc main() is { 1(\"ab\", 0); 0(0) }", "func f(val a, val b, val c, val d, val e) is return a proc main() is 0(f(1, 2, 3, 4, 5))", "proc main() is 0(x)", "proc main() is 3(0)", "proc main() is 0($)",
                        "var n; array a[n]; proc main() is skip", "proc p(proc q) is q() proc main() is p(main)", "proc main() is 0(70000 + 70001)", "proc main() is 0(70000 - 70000)", "val k = 70000; proc main() is { 1(k, 0); 1(k, 0); 0(k) }",
                        "proc lab0() is skip proc main() is lab0()", "proc main() is stop", "proc main() is skip", "func f() is return 1 proc main() is 0(f() + f())"})
    srcs.push_back({"unusual", s, false});
  // string literals of every length 0..40 (packing into words, buffers on stack vs heap)
  for (int n = 0; n <= 40; n++) { std::string lit(n, 'a'); for (int k = 0; k < n; k++) lit[k] = 'a' + k % 26; srcs.push_back({"string-length", "proc p(array s, array t) is 0(s[0] + t[0])\nproc main() is p(\"" + lit + "\", \"" + lit.substr(0, n / 2) + "\")\n", false}); }
  for (const char *s : {"BR foo\n", "LDAC 0\nb\nLDAC b\n", "a\na\nBR a\n", "PROC p\nFUNC p\nBR p\n", "LDAC 99999999999\n", "DATA -1\nDATA 4294967295\n", "BR La\nLa\nLDAC 0\nDATA 5\n", "LDAP x\nLDAC 0\nLDAC 0\nx\nDATA 1\nLDAM x\n", "", "# c\n", "OPR LDAC\n",
                        "PROC a\nPROC b\nLDAC 1\n", "FUNC f\nPROC p\nFUNC g\nBR f\nPROC q\nPROC r\nLDAC 0\n", "x\ny\nz\nBR x\nBR y\nBR z\n", "PROC putc\nPROC putchar\nLDAC 1\nOPR SVC\nFUNC a\nFUNC b\nFUNC c\nOPR BRB\n", "PROC e1\nPROC e2\n"})
    srcs.push_back({"unusual-asm", s, true});
  // every single-token edit (delete, duplicate, swap, replace by every token / identifier of the program / hostile literal) of the semantic seed program
  // and of a few corpus programs: this is where accepted-but-unusual sources come from (assignment to a val, a call through the wrong kind of name, ...)
  {
    const std::vector<std::string> TOK = {"x", "7", "[", "]", "(", ")", "if", "then", "else", "while", "do", ":=", "skip", "{", "}", ";", ",", "var", "array", "proc", "func", "is", "stop", "~", "val",
                                          "\"s\"", "true", "false", "return", "+", "-", "or", "and", "=", "~=", "<", "<=", ">", ">="};
    std::vector<std::string> seedTexts = {semanticSeed()};
    { xgen::Corpus C; C.build(false); for (uint64_t i = 0; i < C.total; i += C.total / (th ? 12 : 3) + 1) { std::string sh, fam; seedTexts.push_back(C.make(i, &sh, &fam)); } }
    for (auto &text : seedTexts) {
      auto toks = tokenizeX(text); if (toks.empty()) continue;
      robust::Edits E(toks, editReplacements(toks, TOK), " ");
      for (uint64_t i = 0; i < E.total(); i++) srcs.push_back({"edit", E.make(i), false});
    }
  }
  size_t big = 0; for (auto &s : srcs) if (s.text.size() > 20000) big++;
  // ---- configurations
  struct Cfg { unsigned char fill; size_t shift; unsigned char stack; int pred; bool desc = false; };
  std::vector<Cfg> cfgs;
  std::vector<size_t> shifts = {0, 16, 4096};
  for (unsigned char f : {0x00, 0xFF, 0xA5, 0x5A}) for (size_t sh : shifts) for (unsigned char st : {0x00, 0xFF}) cfgs.push_back({f, sh, st, -1});
  // pointer order: the same with every block allocated below the previous one (descending arena)
  { Cfg c{0xA5, 0, 0xFF, -1}; c.desc = true; cfgs.push_back(c); Cfg d{0x00, 16, 0x00, -1}; d.desc = true; cfgs.push_back(d); }
  // predecessors: 6 fixed sources compiled first in the same process
  std::vector<int> preds; for (size_t i = 0; i < srcs.size() && preds.size() < 6; i += srcs.size() / 6 + 1) preds.push_back((int)i);
  for (int p : preds) { cfgs.push_back({0xA5, 16, 0xFF, p}); if (th) cfgs.push_back({0x00, 0, 0x00, p}); }
  if (!ctx.replayPath.empty()) {
    JV v; if (!jparse(slurp(ctx.replayPath), v)) harness_fail("cannot parse replay");
    const JV *c = v.get("case"); if (c && c->get("case")) c = c->get("case"); if (!c) harness_fail("no case");
    Src s{"replay", c->str("source"), c->str("tool") == "hexasm"};
    if (c->str("family") == "history") {
      Src p1{"poison", c->str("first"), c->get("first_is_asm") && c->get("first_is_asm")->b}, p2{"poison", c->str("second"), c->get("first_is_asm") && c->get("first_is_asm")->b};
      int rc = run_isolated([&] {
        std::string out = ctx.scratch + "/replay.out"; g_errno = 0; Result alone = produce(s, out);
        int bad = 0;
        for (int asm2 = 0; asm2 < 2; asm2++) { p2.isAsm = asm2; g_errno = 0; (void)produce(p1, out); if (!p2.text.empty()) (void)produce(p2, out); Result r = produce(s, out); if (!(r == alone)) { bad++; printf("after the history: status %d, diagnostic '%s' (alone: status %d, '%s')\n", r.status, r.err.substr(0, 200).c_str(), alone.status, alone.err.substr(0, 200).c_str()); } }
        if (bad) _exit(7); printf("replay: the subject is processed identically alone and after the history\n"); }, 300);
      if (rc) { printf("VIOLATION property=C11 replay=%s\n", ctx.replayPath.c_str()); return 1; }
      return 0;
    }
    int rc = run_isolated([&] {
      std::string out = ctx.scratch + "/replay.out"; Result base; bool have = false; int bad = 0;
      for (auto &cf : cfgs) { if (cf.pred >= 0) continue; robust::g_fill = cf.fill; robust::g_shift = cf.shift; robust::g_fill_on = true; robust::dirtyStack(cf.stack); if (cf.desc) robust::desc_begin(); Result r = produce(s, out); robust::desc_end(); robust::g_fill_on = false; if (!have) { base = r; have = true; } else if (!(r == base)) bad++; }
      printf("replay: %d of %zu configurations differ from the first\n", bad, cfgs.size()); if (bad) _exit(7); }, 300);
    if (rc) { printf("VIOLATION property=C11 replay=%s\n", ctx.replayPath.c_str()); return 1; }
    return 0;
  }
  phase(ctx, std::to_string(srcs.size()) + " sources x " + std::to_string(cfgs.size()) + " in-process configurations");
  auto body = [&](uint64_t b, uint64_t e, const std::set<uint64_t> &skip, Stats &st, volatile uint64_t *cur) {
    std::string out = ctx.scratch + "/c11." + std::to_string(getpid()) + ".out";
    for (uint64_t i = b; i < e; i++) {
      *cur = i; if (skip.count(i)) continue;
      if (ctx.expired()) { st.add("sources_skipped_deadline"); continue; }
      const Src &s = srcs[i]; bool huge = s.text.size() > 20000;
      Result base; bool have = false;
      size_t cfgIndex = 0; g_errno = 0;
      for (auto &cf : cfgs) {
        cfgIndex++;
        if (huge && (cf.shift == 4096 || (cf.pred >= 0 && !th))) continue;
        if (s.name == "edit" && !th && !(cfgIndex == 1 || cf.desc || cf.fill == 0xA5 || (cf.fill == 0xFF && cf.shift == 16 && cf.stack == 0xFF))) continue;
        g_errno = 0; robust::g_fill = cf.fill; robust::g_shift = cf.shift; robust::g_fill_on = true; robust::dirtyStack(cf.stack);
        if (cf.pred >= 0 && (size_t)cf.pred != i) (void)produce(srcs[cf.pred], out);
        Result r; if (cf.desc) robust::desc_begin(); r = produce(s, out); robust::desc_end();
        robust::g_fill_on = false;
        st.add("pairs");
        if (!have) { base = r; have = true; continue; }
        if (!(r == base)) {
          std::string what = r.status != base.status ? "verdict" : r.bin != base.bin ? "binary" : r.listing != base.listing ? "listing" : "diagnostic";
          st.violation(std::string(s.isAsm ? "hexasm:" : "xcmp:") + what + (cf.pred >= 0 ? ":after-predecessor" : cf.desc ? ":pointer-order" : ":fill-or-shift"), i,
                       Obj().kv("tool", s.isAsm ? "hexasm" : "xcmp").kv("source_name", s.name).kv("source", s.text.substr(0, 4000)).kv("fill", (int)cf.fill).kv("shift", (uint64_t)cf.shift).kv("stack_fill", (int)cf.stack).kv("predecessor", cf.pred).kb("descending_allocation", cf.desc)
                           .kv("what", what + " differs from the first configuration (status " + std::to_string(base.status) + "/" + std::to_string(r.status) + ")").str());
          break;
        }
      }
      st.add(base.status == 0 ? "sources_accepted" : "sources_rejected");
      st.outcome(fnv(base.bin) ^ fnv(base.err));
      if (i % 97 == 0) st.sample(Obj().kv("tool", s.isAsm ? "hexasm" : "xcmp").kv("source_name", s.name).kv("source", s.text.substr(0, 200)).kv("configurations", (uint64_t)cfgs.size()).str(), 5);
    }
  };
  auto r = run_chunks(ctx, "c11", srcs.size(), std::min<uint64_t>(srcs.size(), 2048), body, [&](uint64_t i) { return Obj().kv("tool", srcs[i].isAsm ? "hexasm" : "xcmp").kv("source_name", srcs[i].name).kv("source", srcs[i].text.substr(0, 4000)).str(); }, 300, (size_t)24 << 30);
  rep.st.merge(r.stats);
  if (!r.complete || rep.st.c["sources_skipped_deadline"]) rep.caps.push_back("in-process: deadline");
  // ---- histories: every "poison" source (chosen to leave something behind: overflowing literals set errno, every kind of diagnostic unwinds from a different depth,
  // long strings/many constants/many labels advance counters and grow buffers) processed first, singly and in ordered pairs, then each subject; compared with the subject processed alone
  if (!ctx.expired()) {
    std::vector<Src> poison;
    for (const char *x : {"proc main() is 0(99999999999999999999)", "proc main() is 0(#FFFFFFFFFFFFFFFFFFFFF)", "val v = 184467440737095516160; proc main() is 0(v)", "proc main() is 0(4294967296)", "proc main() is 0(2147483647 + 1)",
                          "proc main() is 0(", "proc main() is 0($)", "proc main() is 0(x)", "proc main() is 0('ab')", "proc main() is 0(\"abc", "val a = b; val b = a; proc main() is 0(a)", "var x; var x; proc main() is skip",
                          "proc p() is skip", "proc main() is { main := 1 }", "proc main() is 3(0)", "array a[0]; proc main() is 0(a[0])", "array a[100000]; proc main() is 0(a[99999])", "",
                          "func f(val n) is if n = 0 then return 0 else return f(n - 1) + 70000 proc main() is 0(f(3))",
                          "proc p(array s) is 0(s[0]) proc main() is p(\"a string that is long enough to need several words of packing, with \\n escapes\")"})
      poison.push_back({"poison", x, false});
    { std::string many = "proc main() is var x; {"; for (int i = 0; i < 300; i++) many += " x := " + std::to_string(70000 + i) + "; if x = " + std::to_string(i) + " then x := 0 else skip;"; many += " 0(x) }"; poison.push_back({"poison", many, false}); }
    for (const char *x : {"DATA 99999999999999999999\n", "LDAC 99999999999999999999999\n", "LDAC -99999999999999999999\n", "BR foo\n", "a\na\nBR a\n", "LDAC\n", "OPR LDAC\n", "$\n", "", "x\nDATA 1\nLDAM x\n", "PROC p\nFUNC p\n",
                          "BR l\nLDAC 1\nDATA 4294967295\nl\nLDAC -2147483648\nOPR SVC\n"})
      poison.push_back({"poison-asm", x, true});
    { std::string many; for (int i = 0; i < 400; i++) many += "BR l" + std::to_string(399 - i) + "\nl" + std::to_string(i) + "\nLDAC " + std::to_string(i * 37) + "\n"; poison.push_back({"poison-asm", many, true}); }
    std::vector<size_t> subj;
    { size_t nc = 0, ns = 0, ne = 0;
      for (size_t i = 0; i < srcs.size(); i++) {
        const std::string &n = srcs[i].name;
        if (srcs[i].text.size() > 20000 && !th) continue;
        if (n == "unusual" || n == "unusual-asm" || (n.size() > 2 && (n.substr(n.size() - 2) == ".x" || n.substr(n.size() - 2) == ".S"))) subj.push_back(i);
        else if (n == "string-length") { if (ns++ % 5 == 0) subj.push_back(i); }
        else if (n == "edit") { if (ne++ % (th ? 50 : 400) == 0) subj.push_back(i); }
        else if (nc++ % (th ? 10 : 40) == 0) subj.push_back(i);
      } }
    // histories: single poison, and ordered pairs (thorough: all; quick: pairs whose first member is one of the literal-overflow sources)
    std::vector<std::pair<int, int>> hist; for (size_t a = 0; a < poison.size(); a++) hist.push_back({(int)a, -1});
    for (size_t a = 0; a < poison.size(); a++) for (size_t b = 0; b < poison.size(); b++) if (a != b && (th || a < 3 || (poison[a].isAsm && a < 23))) hist.push_back({(int)a, (int)b});
    phase(ctx, "histories: " + std::to_string(hist.size()) + " poison histories x " + std::to_string(subj.size()) + " subjects");
    auto bodyH = [&](uint64_t b, uint64_t e, const std::set<uint64_t> &skip, Stats &st, volatile uint64_t *cur) {
      std::string out = ctx.scratch + "/c11h." + std::to_string(getpid()) + ".out";
      for (uint64_t k = b; k < e; k++) {
        *cur = k; if (skip.count(k)) continue;
        if (ctx.expired()) { st.add("history_subjects_skipped_deadline"); continue; }
        const Src &s = srcs[subj[k]];
        g_errno = 0; Result alone = produce(s, out);
        for (auto &h : hist) {
          g_errno = 0;
          // the predecessors' output file stays in place and is overwritten by the subject
          (void)produce(poison[h.first], out, true, false); if (h.second >= 0) (void)produce(poison[h.second], out, false, false);
          Result r = produce(s, out, false, true);
          st.add("pairs"); st.add("history_runs");
          if (!(r == alone)) {
            std::string what = r.status != alone.status ? "verdict" : r.bin != alone.bin ? "binary" : r.listing != alone.listing ? "listing" : "diagnostic";
            st.violation(std::string(s.isAsm ? "hexasm:" : "xcmp:") + what + ":after-history", k,
                         Obj().kv("tool", s.isAsm ? "hexasm" : "xcmp").kv("family", "history").kv("source_name", s.name).kv("source", s.text.substr(0, 4000)).kv("first", poison[h.first].text.substr(0, 300)).kb("first_is_asm", poison[h.first].isAsm)
                             .kv("second", h.second >= 0 ? poison[h.second].text.substr(0, 300) : std::string("")).kv("what", what + " differs from the subject processed alone (status " + std::to_string(alone.status) + "/" + std::to_string(r.status) + "): " + r.err.substr(0, 120)).str());
            break;
          }
        }
      }
    };
    auto rh = run_chunks(ctx, "hist", subj.size(), std::min<uint64_t>(subj.size(), 256), bodyH, [&](uint64_t k) { return Obj().kv("family", "history").kv("source", srcs[subj[k]].text.substr(0, 2000)).str(); }, 600, (size_t)24 << 30);
    rep.st.merge(rh.stats);
    if (!rh.complete || rep.st.c["history_subjects_skipped_deadline"]) rep.caps.push_back("histories: deadline");
    rep.bounds.kv("poison_sources", (uint64_t)poison.size()).kv("histories", (uint64_t)hist.size()).kv("history_subjects", (uint64_t)subj.size());
  }
  // ---- process level
  const char *cli = getenv("HEX_CLI");
  if (cli && !ctx.expired()) {
    std::vector<int> perturb; if (th) for (int i = 0; i < 256; i++) perturb.push_back(i); else perturb = {0, 85, 170, 255};
    std::vector<size_t> pads = {0, 4096, 65536};
    std::vector<size_t> which; for (size_t i = 0; i < srcs.size(); i++) if (srcs[i].name == "unusual" || srcs[i].name == "unusual-asm" || srcs[i].name == "fib.x" || srcs[i].name == "hello.S" || srcs[i].name == "bubblesort.x") which.push_back(i);
    phase(ctx, "process level: " + std::to_string(which.size()) + " sources x " + std::to_string(perturb.size() * (pads.size() + 1) * 2) + " configurations");
    auto body2 = [&](uint64_t b, uint64_t e, const std::set<uint64_t> &skip, Stats &st, volatile uint64_t *cur) {
      std::string dir = ctx.scratch + "/p" + std::to_string(b); mkdir(dir.c_str(), 0755);
      for (uint64_t k = b; k < e; k++) {
        *cur = k; if (skip.count(k)) continue;
        if (ctx.expired()) { st.add("process_sources_skipped_deadline"); continue; }
        const Src &s = srcs[which[k]];
        spit(dir + "/src.txt", s.text);
        std::string tool = std::string(cli) + (s.isAsm ? "/hexasm" : "/xcmp");
        std::string first; bool have = false;
        for (int pt : perturb) for (size_t pd : pads) for (int aslr = 0; aslr < 2; aslr++) for (int mm = 0; mm < (pd == 0 ? 2 : 1); mm++) {
          std::vector<std::string> env = {"MALLOC_PERTURB_=" + std::to_string(pt), "PAD=" + std::string(pd, 'x'), "PATH=/usr/bin:/bin"};
          if (mm) env.push_back("MALLOC_MMAP_THRESHOLD_=0");   // every block from mmap: descending addresses, page-aligned
          std::string sig;
          for (int mode = 0; mode < 2; mode++) {
            std::vector<std::string> av; if (!aslr) { av = {"/usr/bin/setarch", "x86_64", "-R", tool}; } else av = {tool};
            av.push_back("src.txt");
            if (mode == 0) { av.push_back("-o"); av.push_back("out.bin"); } else av.push_back(s.isAsm ? "--instrs" : "-S");
            unlink((dir + "/out.bin").c_str());
            std::string out, err; int rc = runProc(av, env, dir, out, err, 60);
            st.add("process_runs");
            sig += std::to_string(rc) + "|" + hexs(slurp(dir + "/out.bin")) + "|" + out + "|" + err + "#";
          }
          if (!have) { first = sig; have = true; }
          else if (sig != first) { st.violation(std::string(s.isAsm ? "hexasm" : "xcmp") + ":process-output-depends-on-host-state", k, Obj().kv("tool", s.isAsm ? "hexasm" : "xcmp").kv("source", s.text.substr(0, 2000)).kv("perturb", pt).kv("env_pad", (uint64_t)pd).kb("aslr", aslr).kb("mmap_threshold_0", mm).kv("what", "status, binary, listing or diagnostic differs from the first configuration").str()); goto next; }
        }
      next:;
      }
      std::string rm = "rm -rf '" + dir + "'"; if (system(rm.c_str())) {}
    };
    auto r2 = run_chunks(ctx, "proc", which.size(), which.size(), body2, [&](uint64_t k) { return Obj().kv("source", srcs[which[k]].text.substr(0, 2000)).str(); }, 300, (size_t)24 << 30);
    rep.st.merge(r2.stats);
    if (!r2.complete || rep.st.c["process_sources_skipped_deadline"]) rep.caps.push_back("process level: deadline");
  }
  auto &c = rep.st.c;
  rep.evaluations = c["pairs"] + c["process_runs"]; rep.states = c["pairs"]; rep.transitions = rep.evaluations; rep.validated = rep.evaluations;
  rep.nontrivial = c["pairs"];
  rep.rule = "sources: shipped X and assembly files, a stride sample of the C01 and C05 corpora, and semantically unusual sources (accepted and rejected); configurations in-process: heap fill {00,FF,A5,5A} x "
             "allocation shift {0,16,4096 bytes: changes every pointer value and block spacing} x stack fill {00,FF}, two configurations in which every block is allocated below the previous one (reverses the address order of any two objects), plus each of 6 other sources compiled first in the same process; histories: every poison source "
             "(overflowing literals, one diagnostic per stage, long strings, many constants/labels; X and assembly) singly and in ordered pairs before each subject, compared with the subject alone; process level: "
             "MALLOC_PERTURB_ {0,85,170,255 | thorough 0..255} x environment padding {0,4K,64K} x ASLR {off via setarch -R, on} (+ MALLOC_MMAP_THRESHOLD_=0) for binary and listing modes; every (source,configuration) pair must yield "
             "the byte-identical binary, listing and diagnostic as the first configuration; pairs are distinct by construction";
  rep.bounds.kv("sources", (uint64_t)srcs.size()).kv("in_process_configurations", (uint64_t)cfgs.size());
  rep.assumptions = {"ASLR placements cannot be enumerated: covered by allocation shifting (in-process) and on/off at process level"};
  rep.trusted = {"operator new/delete seam in src/common/robust.hpp", "src/adapters/tools.cpp"};
  return rep.finish();
}
