// C16 — processor.v (and its copy synth/processor.v) is behaviourally identical to processor.sv.
// Three Verilated bare `processor` modules are driven in lock-step over the input/state grid; hex built with processor.v is run against hex built
// with processor.sv on instruction sequences; the two shipped .v copies are compared as token streams.
#include <memory>
#include <verilated.h>
#include <verilated_sym_props.h>
#include "Vpsv.h"
#include "Vpv.h"
#include "Vpsy.h"
#include "Vhexsv.h"
#include "Vhexv.h"
#include "common/mc.hpp"
#include "common/refisa.hpp"

using namespace mc;
static Ctx ctx;
double sc_time_stamp() { return 0; }

static void *vlVar(VerilatedContext *c, const std::string &scope, const char *name) {
  const VerilatedScope *s = c->scopeFind(scope.c_str());
  if (!s) harness_fail("Verilated scope not found: " + scope);
  VerilatedVar *v = s->varFind(name);
  if (!v) harness_fail(std::string("Verilated variable not found: ") + scope + "." + name);
  return v->datap();
}

// Uniform view of a bare processor model
struct Proc {
  VerilatedContext *vc;   // models and contexts are deliberately never destroyed: Verilator's scope teardown consults the thread's *current* context,
                          // which is the wrong one when several contexts live in one process; workers end with _exit()
  std::function<void()> eval, settle, fin;
  uint8_t *i_rst, *i_clk, *i_f_data, *o_d_valid, *o_d_we, *o_syscall_valid, *o_syscall, *o_f_valid;
  uint32_t *o_f_addr, *o_d_addr, *o_d_data, *i_d_data, *pc, *a, *b, *o;
};
#define DECL_SETTLE(P) class P##___024root; void P##___024root___eval_settle(P##___024root *);
DECL_SETTLE(Vpsv) DECL_SETTLE(Vpv) DECL_SETTLE(Vpsy) DECL_SETTLE(Vhexsv) DECL_SETTLE(Vhexv)
template <class M, void (*SETTLE)(decltype(((M *)nullptr)->rootp))> static Proc makeProc() {
  Proc p; p.vc = new VerilatedContext; p.vc->debug(0); p.vc->randReset(0); p.vc->threads(1);
  const char *av[] = {"c16"}; p.vc->commandArgs(1, av);
  M *t = new M(p.vc, "TOP");
  p.eval = [t] { t->eval(); }; p.settle = [t] { SETTLE(t->rootp); }; p.fin = [t] { t->final(); };
  p.i_rst = &t->i_rst; p.i_clk = &t->i_clk; p.i_f_data = &t->i_f_data; p.o_d_valid = &t->o_d_valid; p.o_d_we = &t->o_d_we;
  p.o_syscall_valid = &t->o_syscall_valid; p.o_syscall = &t->o_syscall; p.o_f_valid = &t->o_f_valid;
  p.o_f_addr = &t->o_f_addr; p.o_d_addr = &t->o_d_addr; p.o_d_data = &t->o_d_data; p.i_d_data = &t->i_d_data;
  p.pc = (uint32_t *)vlVar(p.vc, "TOP.processor", "pc_q"); p.a = (uint32_t *)vlVar(p.vc, "TOP.processor", "areg_q");
  p.b = (uint32_t *)vlVar(p.vc, "TOP.processor", "breg_q"); p.o = (uint32_t *)vlVar(p.vc, "TOP.processor", "oreg_q");
  *p.i_clk = 0; *p.i_rst = 0; p.eval();
  return p;
}
struct Snap { uint32_t f_addr, d_addr, d_data; uint8_t d_valid, d_we, sv, sc, f_valid; uint32_t pc, a, b, o;
  bool outEq(const Snap &x) const { return f_addr == x.f_addr && d_valid == x.d_valid && d_we == x.d_we && (!d_valid || d_addr == x.d_addr) && (!(d_valid && d_we) || d_data == x.d_data) && sv == x.sv && (!sv || sc == x.sc) && f_valid == x.f_valid; }
  bool outEqStrict(const Snap &x) const { return f_addr == x.f_addr && d_valid == x.d_valid && d_we == x.d_we && d_addr == x.d_addr && d_data == x.d_data && sv == x.sv && sc == x.sc && f_valid == x.f_valid; }
  bool regEq(const Snap &x) const { return pc == x.pc && a == x.a && b == x.b && o == x.o; } };
static std::string snapStr(const Snap &s) { char b[256]; snprintf(b, sizeof b, "f_addr=%u d_valid=%u d_we=%u d_addr=%u d_data=0x%08x svc=%u/%u | pc=%u a=0x%08x b=0x%08x o=0x%08x", s.f_addr, s.d_valid, s.d_we, s.d_addr, s.d_data, s.sv, s.sc, s.pc, s.a, s.b, s.o); return b; }

struct Case { uint32_t byte, rst, pc, a, b, o, d; };
static Snap drive(Proc &p, const Case &c) {
  *p.pc = c.pc & 0x1FFFFF; *p.a = c.a; *p.b = c.b; *p.o = c.o;
  *p.i_f_data = c.byte; *p.i_d_data = c.d; *p.i_rst = 0; *p.i_clk = 0;
  p.settle(); p.eval();
  Snap s; s.f_addr = *p.o_f_addr; s.d_addr = *p.o_d_addr; s.d_data = *p.o_d_data; s.d_valid = *p.o_d_valid; s.d_we = *p.o_d_we; s.sv = *p.o_syscall_valid; s.sc = *p.o_syscall; s.f_valid = *p.o_f_valid;
  if (c.rst) { *p.i_rst = 1; p.eval(); *p.i_rst = 0; p.eval(); }
  else { *p.i_clk = 1; p.eval(); *p.i_clk = 0; p.eval(); }
  s.pc = *p.pc; s.a = *p.a; s.b = *p.b; s.o = *p.o;
  return s;
}
static std::vector<uint32_t> corners(bool deep, bool deeper) {
  std::vector<uint32_t> k = {0, 1, 2, 3, 0xF, 0x10, 0x11, 0xFF, 0x100, 199999, 200000, 0x7FFFF, 0x80000, 0x1FFFFF, 0x200000, 0x7FFFFFFF, 0x80000000u, 0xFFFFFFF0u, 0xFFFFFFFFu, 0xFFFFFF00u, 0xFFF80000u, 0xFFE00000u, 0x12345678u, 0xDEADBEEFu};
  for (int b : {4, 8, 16, 17, 18, 19, 20, 21, 22, 31}) { k.push_back(1u << b); k.push_back((1u << b) - 1); if (deep) { k.push_back(~(1u << b)); k.push_back((1u << b) + 1); } }
  if (deep) for (int b = 5; b < 31; b++) { k.push_back(1u << b); k.push_back((1u << b) - 1); }
  if (deeper) { for (int b = 5; b < 31; b++) { k.push_back((1u << b) + 16); k.push_back(~(1u << b)); k.push_back(0u - (1u << b)); } for (uint32_t v = 0; v < 16; v++) { k.push_back(v); k.push_back(0xFFFFFFF0u + v); k.push_back(199990 + v); } }
  std::sort(k.begin(), k.end()); k.erase(std::unique(k.begin(), k.end()), k.end());
  return k;
}
static std::string caseJson(const Case &c) { return Obj().kv("family", "grid").kv("byte", c.byte).kv("rst", c.rst).kv("pc", c.pc).kv("areg", c.a).kv("breg", c.b).kv("oreg", c.o).kv("d_data", c.d).str(); }

// Verilog tokens without comments/whitespace
static std::vector<std::string> vtokens(const std::string &s) {
  std::vector<std::string> t; size_t i = 0;
  while (i < s.size()) {
    if (isspace((unsigned char)s[i])) { i++; continue; }
    if (s.compare(i, 2, "//") == 0) { while (i < s.size() && s[i] != '\n') i++; continue; }
    if (s.compare(i, 2, "/*") == 0) { size_t e = s.find("*/", i + 2); i = e == std::string::npos ? s.size() : e + 2; continue; }
    if (isalnum((unsigned char)s[i]) || s[i] == '_' || s[i] == '$' || s[i] == '\'') { size_t j = i; while (j < s.size() && (isalnum((unsigned char)s[j]) || s[j] == '_' || s[j] == '$' || s[j] == '\'')) j++; t.push_back(s.substr(i, j - i)); i = j; continue; }
    t.push_back(std::string(1, s[i])); i++;
  }
  return t;
}

int main(int argc, char **argv) {
  ctx = parse_args("C16", argc, argv, 300, 1500);
  Report rep; rep.ctx = ctx;
  auto K = corners(true, ctx.thorough()); uint64_t nk = K.size();
  std::vector<uint32_t> PCK = {0, 1, 2, 3, 799999, 0x1FFFFF, 0x1FFFFE, 0x100000, 0xFFFFF, 400001};
  std::vector<uint32_t> DK = {0, 1, 0x80000000u, 0xFFFFFFFFu, 0x12345678u, 199999};
  auto runCase = [&](Proc &sv, Proc &v, Proc &sy, const Case &c, Stats &st, uint64_t order, bool count) {
    Snap a = drive(sv, c), b = drive(v, c), d = drive(sy, c);
    if (count) st.add("grid_clocks");
    auto rep1 = [&](const char *which, const Snap &x) {
      std::string kind = !a.outEqStrict(x) ? "outputs" : "next-state";
      st.violation(std::string("equiv:") + which + ":" + refisa::MNEM[c.byte >> 4] + ":" + kind, order, Obj().raw("case", caseJson(c)).kv("processor_sv", snapStr(a)).kv(which, snapStr(x)).str());
    };
    if (!a.outEqStrict(b) || !a.regEq(b)) rep1("processor.v", b);
    if (!a.outEqStrict(d) || !a.regEq(d)) rep1("synth/processor.v", d);
    if (count) st.outcome(mix(mix(mix(a.pc, a.a), a.o), a.d_addr));
  };
  if (!ctx.replayPath.empty()) {
    JV v; if (!jparse(slurp(ctx.replayPath), v)) harness_fail("cannot parse replay");
    const JV *c = v.get("case"); if (c && c->get("case")) c = c->get("case"); if (!c) harness_fail("no case");
    Proc sv = makeProc<Vpsv, Vpsv___024root___eval_settle>(), pv = makeProc<Vpv, Vpv___024root___eval_settle>(), sy = makeProc<Vpsy, Vpsy___024root___eval_settle>();
    Case cs{(uint32_t)c->num("byte"), (uint32_t)c->num("rst"), (uint32_t)c->num("pc"), (uint32_t)c->num("areg"), (uint32_t)c->num("breg"), (uint32_t)c->num("oreg"), (uint32_t)c->num("d_data")};
    Stats st; runCase(sv, pv, sy, cs, st, 0, false);
    for (auto &p : st.viols) printf("%s %s\n", p.first.c_str(), p.second.json.c_str());
    if (!st.viols.empty()) { printf("VIOLATION property=C16 replay=%s\n", ctx.replayPath.c_str()); return 1; }
    printf("replay: the three models agree\n"); return 0;
  }
  // ---- the two shipped copies as token streams
  {
    auto t1 = vtokens(slurp(ctx.repo + "/verilog/processor.v")), t2 = vtokens(slurp(ctx.repo + "/synth/processor.v"));
    rep.st.add("verilog_tokens_compared", t1.size());
    if (t1.empty() || t2.empty()) rep.st.violation("copies:missing", 0, Obj().kv("what", "processor.v copy missing or empty").str());
    else if (t1 != t2) {
      size_t i = 0; while (i < t1.size() && i < t2.size() && t1[i] == t2[i]) i++;
      rep.st.violation("copies:token-streams-differ", i, Obj().kv("what", "verilog/processor.v and synth/processor.v differ as token streams").kv("first_difference_token_index", (uint64_t)i).kv("verilog", i < t1.size() ? t1[i] : "<end>").kv("synth", i < t2.size() ? t2[i] : "<end>").str());
    }
  }
  // ---- grid on the three bare processors
  phase(ctx, "grid: 256 bytes x pc " + std::to_string(PCK.size()) + " x K^3 (" + std::to_string(nk) + ") x d_data " + std::to_string(DK.size()));
  {
    uint64_t units = 256 * PCK.size();
    auto body = [&](uint64_t b, uint64_t e, const std::set<uint64_t> &skip, Stats &st, volatile uint64_t *cur) {
      Proc sv = makeProc<Vpsv, Vpsv___024root___eval_settle>(), pv = makeProc<Vpv, Vpv___024root___eval_settle>(), sy = makeProc<Vpsy, Vpsy___024root___eval_settle>();
      for (uint64_t u = b; u < e; u++) {
        *cur = u; if (skip.count(u)) continue;
        if (ctx.expired()) { st.add("grid_units_skipped_deadline"); continue; }
        uint32_t byte = u / PCK.size(), pc = PCK[u % PCK.size()]; uint32_t op = byte >> 4;
        bool usesA = op == 2 || op == 6 || op == 8 || op == 0xA || op == 0xB || op == 0xD, usesB = op == 7 || op == 8 || op == 0xD;
        bool loads = op == 0 || op == 1 || op == 6 || op == 7;
        for (uint64_t io = 0; io < nk; io++) for (uint64_t ia = 0; ia < nk; ia++) for (uint64_t ib = 0; ib < nk; ib++) {
          if ((!usesA && ia > 1) || (!usesB && ib > 1)) continue;
          for (size_t id = 0; id < DK.size(); id++) {
            if (!loads && id > 0) break;
            Case c{byte, 0, pc, K[ia], K[ib], K[io], DK[id]};
            runCase(sv, pv, sy, c, st, io * 1000000 + ia * 1000 + ib, true);
          }
        }
        // reset edge from a few states
        for (uint64_t i = 0; i < nk; i += 7) { Case c{byte, 1, pc, K[i], K[(i * 3) % nk], K[(i * 5) % nk], 0}; runCase(sv, pv, sy, c, st, i, true); }
        if (u % 173 == 0) st.sample(caseJson(Case{byte, 0, pc, K[u % nk], K[(u / 3) % nk], K[(u / 7) % nk], 0}), 4);
      }
      sv.fin(); pv.fin(); sy.fin();
    };
    auto r = run_chunks(ctx, "grid", units, 256, body, [&](uint64_t u) { return Obj().kv("family", "grid").kv("byte", (uint64_t)(u / PCK.size())).str(); }, 300);
    rep.st.merge(r.stats);
    if (!r.complete || rep.st.c["grid_units_skipped_deadline"]) rep.caps.push_back("grid: deadline");
  }
  // ---- hex with processor.v vs hex with processor.sv on instruction sequences (memory and top level shared design, processor swapped)
  {
    static const uint8_t SIGMA[] = {0x00, 0x01, 0x11, 0x21, 0x22, 0x30, 0x31, 0x3F, 0x41, 0x4F, 0x50, 0x5F, 0x60, 0x61, 0x71, 0x80, 0x81, 0x90, 0x91, 0x9F, 0xA1, 0xB1, 0xD0, 0xD1, 0xD2, 0xD3, 0xE0, 0xE1, 0xEF, 0xF0, 0xFF, 0xFE, 0xC0, 0xD4};
    const int NS = sizeof(SIGMA); int d = ctx.thorough() ? 5 : 4;
    uint64_t total = 1; for (int i = 0; i < d; i++) total *= NS;
    phase(ctx, "hex-level sequences: " + std::to_string(total));
    auto body = [&](uint64_t b, uint64_t e, const std::set<uint64_t> &skip, Stats &st, volatile uint64_t *cur) {
      VerilatedContext *c1 = new VerilatedContext, *c2 = new VerilatedContext;
      const char *av[] = {"c16"}; c1->randReset(0); c2->randReset(0); c1->threads(1); c2->threads(1); c1->commandArgs(1, av); c2->commandArgs(1, av);
      Vhexsv &m1 = *new Vhexsv(c1, "TOP"); Vhexv &m2 = *new Vhexv(c2, "TOP");
      uint32_t *r1[4], *r2[4]; const char *names[4] = {"pc_q", "areg_q", "breg_q", "oreg_q"};
      for (int k = 0; k < 4; k++) { r1[k] = (uint32_t *)vlVar(c1, "TOP.hex.u_processor", names[k]); r2[k] = (uint32_t *)vlVar(c2, "TOP.hex.u_processor", names[k]); }
      uint32_t *mem1 = (uint32_t *)vlVar(c1, "TOP.hex.u_memory", "memory_q"), *mem2 = (uint32_t *)vlVar(c2, "TOP.hex.u_memory", "memory_q");
      m1.i_clk = 0; m1.i_rst = 0; m1.eval(); m2.i_clk = 0; m2.i_rst = 0; m2.eval();
      const uint32_t WIN = 1u << 19;
      for (uint64_t i = b; i < e; i++) {
        *cur = i; if (skip.count(i)) continue;
        std::string seq(d, '\0'); uint64_t r = i; for (int k = d - 1; k >= 0; k--) { seq[k] = (char)SIGMA[r % NS]; r /= NS; }
        uint32_t w0 = 0; for (int l = 0; l < 4 && l < d; l++) w0 |= (uint32_t)(uint8_t)seq[l] << (8 * l);
        mem1[0] = mem2[0] = w0; mem1[1] = mem2[1] = 100;
        m1.i_rst = 1; m1.eval(); m1.i_rst = 0; m1.eval(); m2.i_rst = 1; m2.eval(); m2.i_rst = 0; m2.eval();
        Vhexsv___024root___eval_settle(m1.rootp); Vhexv___024root___eval_settle(m2.rootp);
        std::vector<uint32_t> touched; std::string res; int steps = 0;
        for (; steps < 12 && res.empty(); steps++) {
          m1.i_clk = 0; m1.eval(); m2.i_clk = 0; m2.eval();
          if (m1.o_syscall_valid != m2.o_syscall_valid || (m1.o_syscall_valid && m1.o_syscall != m2.o_syscall)) { res = "syscall request differs"; break; }
          m1.i_clk = 1; m1.eval(); m2.i_clk = 1; m2.eval();
          for (int k = 0; k < 4; k++) if (*r1[k] != *r2[k]) res = std::string(names[k]) + " differs: sv " + std::to_string(*r1[k]) + " v " + std::to_string(*r2[k]);
        }
        st.add("hex_seq_clocks", steps); st.add("hex_seq_runs");
        // compare and restore the low memory window cheaply: compare whole arrays every sequence would be slow; compare a hash of first 4096 words + last 64
        for (uint32_t w = 0; w < 4096 && res.empty(); w++) if (mem1[w] != mem2[w]) res = "memory word " + std::to_string(w) + " differs";
        if (!res.empty()) st.violation("hex-level:" + std::string(refisa::MNEM[(uint8_t)seq[std::min(steps, d - 1)] >> 4]), i, Obj().kv("family", "hex-seq").kv("bytes_hex", hexs(seq)).kv("step", steps).kv("what", res).str());
        for (uint32_t w = 0; w < 4096; w++) { mem1[w] = 0; mem2[w] = 0; }
      }
      bool eq = !memcmp(mem1, mem2, WIN * 4);
      if (!eq) st.violation("hex-level:memory-at-end", b, Obj().kv("family", "hex-seq").kv("chunk_begin", b).kv("what", "memories of the two builds differ at the end of the chunk").str());
      m1.final(); m2.final();
    };
    auto r = run_chunks(ctx, "hexseq", total, 128, body, [&](uint64_t i) { return Obj().kv("family", "hex-seq").kv("index", i).str(); }, 300);
    rep.st.merge(r.stats);
    if (!r.complete) rep.caps.push_back("hex-level sequences: deadline");
  }
  auto &c = rep.st.c;
  rep.evaluations = c["grid_clocks"] * 3 + c["hex_seq_clocks"] * 2; rep.states = c["grid_clocks"] + c["hex_seq_runs"]; rep.transitions = c["grid_clocks"] + c["hex_seq_clocks"]; rep.validated = rep.transitions;
  rep.nontrivial = c["grid_clocks"];
  rep.rule = "grid: every (i_f_data byte, pc, oreg, areg, breg, i_d_data for loads) over the corner sets plus reset edges, applied to processor.sv, verilog/processor.v and synth/processor.v "
             "(three Verilated models); all outputs before the edge and all four registers after it must be identical (undefined opcodes included: the translation must match everywhere); "
             "hex-level: every byte sequence of length d over a 34-byte alphabet on hex(processor.sv) vs hex(processor.v); token-stream equality of the two .v copies; distinct by construction";
  rep.bounds.kv("corner_set_size", nk).kv("pc_values", (uint64_t)PCK.size()).kv("d_data_values", (uint64_t)DK.size());
  rep.assumptions = {"Verilator 5.006 elaborates processor.v with -Wno-WIDTH", "register values outside the corner sets are not covered (no RTL equivalence prover in the image)"};
  rep.trusted = {"Verilator 5.006"};
  return rep.finish();
}
