// C12 — a simulator run depends only on the binary, the input and the options.
// The Processor object is constructed by placement-new into a buffer pre-filled with 00 / FF / A5 (host memory state is a seam the harness owns);
// every image of a small exhaustive corpus is run under every fill x trace on/off x every cycle limit and compared with RefISA started from all-zero memory.
#include "common/mc.hpp"
#include <fcntl.h>
#include "common/refisa.hpp"
#include "common/simh.hpp"
#include "adapters/tools.hpp"
#include <dirent.h>
#include <sys/wait.h>

using namespace mc;
using refisa::Machine; using refisa::Env;
static Ctx ctx;

static const uint8_t ALPHA[] = {0x05, 0x0F, 0x19, 0x63, 0x72, 0x31, 0x42, 0xD1, 0xD2, 0xE1, 0xE3, 0x26, 0x81, 0xA1, 0xB1, 0x91, 0x50, 0xD3, 0x00, 0x01, 0x3F, 0x4F, 0x60, 0x70,
                                0xFF, 0x6E, 0x7F, 0x8D};   // NFIX 15 and indexed accesses with operands that become negative after it (addresses that rely on 32-bit wrap-around)
static const int NA = sizeof(ALPHA);
static const std::vector<std::string> EPI = {std::string("\x22\x30\xD3", 3), std::string("\x22\x31\xD3\x30\xD3", 5), std::string("\x32\xD3\x01\x22\x30\xD3", 6)};
static const std::vector<std::string> INPUTS = {std::string(""), std::string("A"), std::string("\xff\x01", 2)};
static const int FILLS[] = {0x00, 0xFF, 0xA5};

struct Img { std::string bytes; std::string desc; };
static Img makeImage(uint64_t idx, int maxK) {
  // idx -> (epilogue, k, bytes)
  uint64_t e = idx % EPI.size(); idx /= EPI.size();
  int k = 0; uint64_t n = 1;
  while (k < maxK && idx >= n) { idx -= n; n *= NA; k++; }
  std::string b(k, '\0');
  for (int i = k - 1; i >= 0; i--) { b[i] = (char)ALPHA[idx % NA]; idx /= NA; }
  Img im; im.bytes = b + EPI[e];
  im.desc = hexs(im.bytes);
  while (im.bytes.size() % 4) im.bytes += '\0';
  return im;
}
static uint64_t countImages(int maxK) { uint64_t t = 0, n = 1; for (int k = 0; k <= maxK; k++) { t += n; n *= NA; } return t * EPI.size(); }

static void __attribute__((noinline)) scribbleStack(unsigned char v) { volatile unsigned char buf[64 * 1024]; for (size_t i = 0; i < sizeof buf; i++) buf[i] = v; }
struct RefRun { int outcome; uint64_t steps; Env env; uint32_t pc, a, b, o; };  // outcome 0 exited, 1 undefined/oor at `steps`, 2 cap
static RefRun refRun(Machine &m, const std::string &image, const std::string &input, uint64_t cap, uint64_t stopAfter /*0 = none*/) {
  m.undoTo(0); m.logWrites = true;
  for (size_t i = 0; i + 3 < image.size(); i += 4) m.store(i / 4, (uint8_t)image[i] | ((uint8_t)image[i + 1] << 8) | ((uint8_t)image[i + 2] << 16) | ((uint32_t)(uint8_t)image[i + 3] << 24));
  m.pc = m.areg = m.breg = m.oreg = 0;
  RefRun r; r.env.in = input; r.outcome = 2; r.steps = 0;
  while (r.steps < cap) {
    if (stopAfter && r.steps >= stopAfter) { r.outcome = 3; break; }
    if (m.classify(false) != refisa::DEFINED) { r.outcome = 1; break; }
    m.step(r.env); r.steps++;
    if (r.env.exited) { r.outcome = 0; break; }
  }
  r.pc = m.pc; r.a = m.areg; r.b = m.breg; r.o = m.oreg;
  return r;
}

struct Obs { int kind; int rv; std::string out; size_t consumed; uint32_t pc, a, b, o; bool memEqualsRef; std::string err;
  bool sameAs(const Obs &x) const { return kind == x.kind && rv == x.rv && out == x.out && consumed == x.consumed && pc == x.pc && a == x.a && b == x.b && o == x.o; } };

static Obs runImpl(simh::Sim &s, const std::string &image, const std::string &input, int fill, bool trace, size_t maxCycles, const Machine *ref) {
  s.create(fill, maxCycles);
  memcpy(s.v.mem, image.data(), image.size());
  s.setInput(input);
  if (trace) ad::sim_set_tracing(s.v, true);
  Obs o; o.err.clear();
  scribbleStack((unsigned char)fill);   // the host stack is part of the host memory state: uninitialised locals pick this up
  o.rv = ad::sim_run(s.v, &o.kind, &o.err);
  o.out = s.ob.data; o.consumed = s.ib.consumed();
  o.pc = *s.v.pc; o.a = *s.v.areg; o.b = *s.v.breg; o.o = *s.v.oreg;
  o.memEqualsRef = ref ? !memcmp(s.v.mem, ref->mem.data(), refisa::MEM_WORDS * 4) : true;
  return o;
}
static bool isSubsequence(const std::string &small, const std::string &big) {
  size_t j = 0; for (size_t i = 0; i < big.size() && j < small.size(); i++) if (big[i] == small[j]) j++;
  return j == small.size();
}

static void checkImage(simh::Sim &sim, Machine &ref, const Img &im, uint64_t order, const std::string &family, Stats &st) {
  for (auto &input : INPUTS) {
    RefRun rr = refRun(ref, im.bytes, input, 300, 0);
    auto viol = [&](const std::string &sig, const std::string &what, int fill, bool trace, size_t limit) {
      st.violation(sig, order, Obj().kv("family", family).kv("image_hex", im.desc).kv("input_hex", hexs(input)).kv("fill", fill).kb("trace", trace).kv("max_cycles", (uint64_t)limit).kv("what", what).str());
    };
    if (rr.outcome == 0) {
      // complete runs: every fill x trace
      st.add("images_x_inputs_complete");
      Obs base;
      for (int fi = 0; fi < 3; fi++) for (int tr = 0; tr < 2; tr++) {
        Obs o = runImpl(sim, im.bytes, input, FILLS[fi], tr, 0, &ref);
        st.add("runs");
        if (o.kind != 0) { viol("complete:exception", "hexsim threw: " + o.err, FILLS[fi], tr, 0); continue; }
        if ((uint32_t)o.rv != rr.env.exitValue) viol(FILLS[fi] ? "complete:status-depends-on-host-memory-or-differs" : "complete:status-differs-from-reference", "status " + std::to_string(o.rv) + ", reference (zero memory) " + std::to_string((int32_t)rr.env.exitValue), FILLS[fi], tr, 0);
        if (o.consumed != rr.env.inPos) viol("complete:consumption", "consumed " + std::to_string(o.consumed) + ", reference " + std::to_string(rr.env.inPos), FILLS[fi], tr, 0);
        if (!tr && o.out != rr.env.out) viol("complete:output", "output '" + hexs(o.out) + "', reference '" + hexs(rr.env.out) + "'", FILLS[fi], tr, 0);
        if (tr && !isSubsequence(rr.env.out, o.out)) viol("trace:output-lost", "program output is not contained in the traced output", FILLS[fi], tr, 0);
        if (o.pc != rr.pc || o.a != rr.a || o.b != rr.b || o.o != rr.o) viol(tr ? "trace:state-changed" : "complete:final-registers", "final registers differ from reference", FILLS[fi], tr, 0);
        if (!o.memEqualsRef) viol(tr ? "trace:memory-changed" : "complete:final-memory", "final memory differs from reference run from all-zero memory", FILLS[fi], tr, 0);
        if (fi == 0 && tr == 0) base = o;
      }
      st.outcome(mix(fnv(rr.env.out), rr.env.exitValue));
    } else st.add(rr.outcome == 1 ? "images_x_inputs_reaching_undefined" : "images_x_inputs_not_terminating_in_cap");
    // limited runs: every cycle limit N = 1.. ; the run executes a prefix of the reference trace
    // under limit N the implementation executes N+1 instructions (or stops at exit): all of them must be defined steps of the reference trace
    uint64_t maxN = rr.outcome == 0 ? std::min<uint64_t>(rr.steps + 1, 24) : (rr.steps >= 2 ? std::min<uint64_t>(rr.steps - 1, 24) : 0);
    for (uint64_t N = 1; N <= maxN; N++) {
      Obs first; bool have = false;
      for (int fi = 0; fi < 3; fi++) {
        Obs o = runImpl(sim, im.bytes, input, FILLS[fi], false, N, nullptr);
        st.add("runs"); st.add("runs_limited");
        if (o.kind != 0) {
          // the prefix executed may legitimately reach the undefined step; only meaningful when the reference says the first N+1 steps are defined
          if (true) viol("limited:exception", "hexsim threw under a cycle limit: " + o.err, FILLS[fi], false, N);
          continue;
        }
        if (!have) { first = o; have = true; }
        else if (!o.sameAs(first)) viol("limited:depends-on-host-memory", "status/output/state under limit differ between fills: status " + std::to_string(first.rv) + " vs " + std::to_string(o.rv), FILLS[fi], false, N);
        if (rr.outcome == 0 && N + 1 >= rr.steps + 1 && (uint32_t)o.rv != rr.env.exitValue && rr.steps <= N) viol("limited:status-of-finished-run", "program exits within the limit but status " + std::to_string(o.rv) + " != " + std::to_string((int32_t)rr.env.exitValue), FILLS[fi], false, N);
        if (!isSubsequence(o.out, rr.env.out) && rr.outcome == 0) viol("limited:output-not-a-prefix", "output under limit is not a prefix of the full output", FILLS[fi], false, N);
      }
    }
  }
}

static std::vector<std::string> listDir(const std::string &d, const std::string &suffix) {
  std::vector<std::string> r; DIR *dir = opendir(d.c_str()); if (!dir) return r;
  while (auto e = readdir(dir)) { std::string n = e->d_name; if (n.size() > suffix.size() && n.substr(n.size() - suffix.size()) == suffix) r.push_back(n); }
  closedir(dir); std::sort(r.begin(), r.end()); return r;
}
// run an executable; returns status (or -signal), captures stdout
static int runProc(const std::vector<std::string> &argv, const std::vector<std::string> &envv, const std::string &stdinPath, std::string &out, double timeout) {
  std::string outPath = ctx.scratch + "/proc." + std::to_string(getpid()) + ".out";
  pid_t p = fork();
  if (p == 0) {
    std::vector<char *> a; for (auto &s : argv) a.push_back((char *)s.c_str()); a.push_back(nullptr);
    std::vector<char *> e; for (auto &s : envv) e.push_back((char *)s.c_str()); e.push_back(nullptr);
    if (!freopen(stdinPath.c_str(), "rb", stdin)) _exit(126);
    if (!freopen(outPath.c_str(), "wb", stdout)) _exit(126);
    if (!freopen("/dev/null", "wb", stderr)) _exit(126);
    child_limits((size_t)4 << 30);
    execve(a[0], a.data(), e.data()); _exit(127);
  }
  double t0 = now(); int status = 0;
  while (true) { pid_t r = waitpid(p, &status, WNOHANG); if (r == p) break; if (now() - t0 > timeout) { kill(p, SIGKILL); waitpid(p, &status, 0); out = slurp(outPath); unlink(outPath.c_str()); return -999; } usleep(500); }
  out = slurp(outPath); unlink(outPath.c_str());
  return WIFEXITED(status) ? WEXITSTATUS(status) : -WTERMSIG(status);
}

int main(int argc, char **argv) {
  ctx = parse_args("C12", argc, argv, 400, 1500);
  if (chdir(ctx.scratch.c_str())) harness_fail("chdir");
  Report rep; rep.ctx = ctx;
  int maxK = ctx.thorough() ? 4 : 3;
  if (!ctx.replayPath.empty()) {
    JV v; if (!jparse(slurp(ctx.replayPath), v)) harness_fail("cannot parse replay");
    const JV *c = v.get("case"); if (!c) harness_fail("no case");
    Img im; im.desc = c->str("image_hex"); im.bytes = unhex(im.desc); while (im.bytes.size() % 4) im.bytes += '\0';
    simh::Sim sim; Machine ref; Stats st;
    checkImage(sim, ref, im, 0, "replay", st);
    for (auto &p : st.viols) printf("  %s: %s\n", p.first.c_str(), p.second.json.c_str());
    if (!st.viols.empty()) { printf("VIOLATION property=C12 replay=%s\n", ctx.replayPath.c_str()); return 1; }
    printf("replay: all fills, trace settings and cycle limits agree\n"); return 0;
  }
  // self-test: a planted fill must survive into the constructor's view (otherwise the seam is not real)
  {
    simh::Sim s; s.create(0xA5);
    // the Sim object's own control fields must have been initialised by the constructor irrespective of the fill; we only assert that the buffer was really dirty
    unsigned char *raw = (unsigned char *)s.buf; size_t n = ad::sim_sizeof(); size_t dirty = 0;
    for (size_t i = 0; i < n; i++) if (raw[i] == 0xA5) dirty++;
    rep.extra.kv("selftest_bytes_still_holding_fill_after_construction", (uint64_t)dirty);
  }
  uint64_t total = countImages(maxK);
  phase(ctx, "lazy corpus: " + std::to_string(total) + " images x " + std::to_string(INPUTS.size()) + " inputs");
  auto body = [&](uint64_t b, uint64_t e, const std::set<uint64_t> &skip, Stats &st, volatile uint64_t *cur) {
    std::string dir = ctx.scratch + "/w" + std::to_string(b); mkdir(dir.c_str(), 0755); if (chdir(dir.c_str())) exit(3);
    {
      simh::Sim sim; Machine ref;
      for (uint64_t i = b; i < e; i++) {
        *cur = i; if (skip.count(i)) continue;
        Img im = makeImage(i, maxK);
        checkImage(sim, ref, im, i, "corpus", st);
        st.add("images");
        if (i % 4001 == 0) st.sample(Obj().kv("family", "corpus").kv("image_hex", im.desc).str(), 5);
      }
    }
    for (int n = 0; n < 8; n++) unlink(("simout" + std::to_string(n)).c_str());
    if (chdir(ctx.scratch.c_str())) exit(3);
    rmdir(dir.c_str());
  };
  auto r = run_chunks(ctx, "corpus", total, 512, body, [&](uint64_t i) { return Obj().kv("family", "corpus").kv("image_hex", makeImage(i, maxK).desc).str(); }, 60);
  rep.st.merge(r.stats);
  if (!r.complete) rep.caps.push_back("corpus: deadline (chunks " + std::to_string(r.chunksDone) + "/" + std::to_string(r.chunksTotal) + ")");

  // ---- reads from file input streams (simin<n>), including reads at / past the end and from a missing file, under every fill
  {
    phase(ctx, "file input streams");
    struct FI { uint32_t stream; std::string content; int reads; };
    std::vector<FI> fis;
    for (uint32_t sn : {256u, 512u, 0x700u, 0x800u}) for (std::string c : {std::string(""), std::string("A"), std::string("ab"), std::string("<missing>")}) for (int rd : {1, 2, 4}) fis.push_back({sn, c, rd});
    auto body3 = [&](uint64_t b, uint64_t e, const std::set<uint64_t> &skip, Stats &st, volatile uint64_t *cur) {
      std::string dir = ctx.scratch + "/fi" + std::to_string(b); mkdir(dir.c_str(), 0755); if (chdir(dir.c_str())) exit(3);
      for (uint64_t i = b; i < e; i++) {
        *cur = i; if (skip.count(i)) continue;
        const FI &c = fis[i]; int ix = (c.stream >> 8) & 7;
        // image: words 0..1003; code at byte 8 = reads x [LDAC 2; SVC]; LDAM 1001; STAM 1002; LDAC 0; SVC ; sp = 1000 ; mem[1002] = stream
        std::string img(1004 * 4, '\0');
        auto setw = [&](uint32_t a, uint32_t v) { memcpy(&img[a * 4], &v, 4); };
        setw(1, 1000); setw(1002, c.stream);
        std::string code = std::string("\x92", 1) + std::string(7, '\0');   // BR +2 at byte 0 -> byte 3?  (keep entry simple: byte 0 = BR 7 -> pc 8)
        img[0] = (char)0x97;
        std::string prog; for (int k = 0; k < c.reads; k++) prog += "\x32\xD3"; prog += "\xE3\xEE\x09\xE3\xEE\x2A\x30\xD3";
        memcpy(&img[8], prog.data(), prog.size());
        // reference
        Machine m; Env env; env.fileInput = true; if (c.content != "<missing>") env.inFiles[ix] = c.content; m.loadWords(img);
        int steps = 0; while (!env.exited && steps < 200) { auto cl = m.classify(false); if (cl != refisa::DEFINED && cl != refisa::NEED_INPUT_STREAM) break; m.step(env); steps++; }
        if (!env.exited) harness_fail("file-input reference program does not exit");
        for (int fill : FILLS) for (int tr = 0; tr < 2; tr++) {
          for (int n = 0; n < 8; n++) unlink(("simin" + std::to_string(n)).c_str());
          if (c.content != "<missing>") spit("simin" + std::to_string(ix), c.content);
          simh::Sim s; s.create(fill, 0); memcpy(s.v.mem, img.data(), img.size()); s.setInput("");
          if (tr) ad::sim_set_tracing(s.v, true);
          scribbleStack((unsigned char)fill);
          int kind; std::string err; int rv = ad::sim_run(s.v, &kind, &err);
          st.add("runs"); st.add("file_input_runs");
          if (kind) st.violation("file-input:exception", i, Obj().kv("family", "file-input").kv("stream", c.stream).kv("file_hex", hexs(c.content)).kv("reads", c.reads).kv("fill", fill).kb("trace", tr).kv("what", err).str());
          else if ((uint32_t)rv != env.exitValue) st.violation(std::string("file-input:status") + (c.content == "<missing>" || (size_t)c.reads > c.content.size() ? ":at-end-of-file" : ""), i, Obj().kv("family", "file-input").kv("stream", c.stream).kv("file_hex", hexs(c.content)).kv("reads", c.reads).kv("fill", fill).kb("trace", tr).kv("what", "status " + std::to_string(rv) + ", reference " + std::to_string((int32_t)env.exitValue) + " (a read at the end of a file stream yields 255)").str());
        }
      }
      for (int n = 0; n < 8; n++) unlink(("simin" + std::to_string(n)).c_str());
      if (chdir(ctx.scratch.c_str())) exit(3);
      rmdir(dir.c_str());
    };
    auto r3 = run_chunks(ctx, "filein", fis.size(), 16, body3, [&](uint64_t i) { return Obj().kv("family", "file-input").kv("stream", fis[i].stream).str(); }, 60);
    rep.st.merge(r3.stats);
  }
  // ---- shipped programs through the real loader, every fill x trace
  {
    phase(ctx, "shipped programs");
    struct P { std::string name, file, input; };
    std::vector<P> progs;
    for (auto &n : listDir(ctx.repo + "/tests/x", ".x")) {
      if (n == "xhexb.x") continue;
      auto cr = ad::xcompile(slurp(ctx.repo + "/tests/x/" + n), ad::X_BINARY, ctx.scratch + "/t.bin");
      if (cr.status == 0) for (std::string in : {std::string(""), std::string("\x05")}) progs.push_back({n, slurp(ctx.scratch + "/t.bin"), in});
    }
    // plus hand-written programs that read words they never wrote (sum of an unwritten array; read of the word above the image)
    const char *unwritten[] = {
      "array a[40]; proc main() is var i; var s; { i := 0; s := 0; while i < 40 do { s := s + a[i]; i := i + 1 }; 0(s) }",
      "var g; proc main() is 0(g + 1)",
      "proc main() is var x; 0(x)",
      "proc f(val n) is var t; { if n = 0 then 0(t) else f(n - 1) } proc main() is f(5)"};
    for (auto src : unwritten) { auto cr = ad::xcompile(src, ad::X_BINARY, ctx.scratch + "/t.bin"); if (cr.status == 0) progs.push_back({"unwritten", slurp(ctx.scratch + "/t.bin"), ""}); else rep.st.add("unwritten_program_not_compiled"); }
    // debug tables with long symbol names (the loader reads them into host memory before the run)
    for (int L : {31, 63, 64, 65, 100, 255, 256, 300, 1000}) {
      std::string nm(L, 'n'); nm[0] = 'p'; for (int i = 1; i < L; i++) nm[i] = (char)('a' + i % 26);
      auto cr = ad::xcompile("var g;\nproc " + nm + "(val v) is g := g + v\nfunc f" + nm + "(val v) is return v + 1\nproc main() is { g := 0; " + nm + "(2); " + nm + "(f" + nm + "(3)); 0(g) }\n", ad::X_BINARY, ctx.scratch + "/t.bin");
      if (cr.status == 0) progs.push_back({"long-name:" + std::to_string(L), slurp(ctx.scratch + "/t.bin"), ""}); else rep.st.add("long_name_program_not_compiled");
    }
    // large images (the program is short, the image is not): data words above the code that the program reads back from the far end
    for (int words : {49990, 50000, 50001, 120000, 199000}) {
      std::string src = "BR start\nDATA 199990\nstart\nLDAC " + std::to_string(words) + "\nLDAI 10\nLDBM 1\nSTAI 2\nLDAC 0\nOPR SVC\n"; for (int i = 0; i < words + 8; i++) src += "DATA " + std::to_string((i * 7 + 3) & 0xFF) + "\n";
      auto ar = ad::assemble_text(src, ad::A_FILE, ctx.scratch + "/t.bin");
      if (ar.kind == 0) progs.push_back({"large-image:" + std::to_string(words), ar.file, ""}); else rep.st.add("large_image_not_assembled");
    }
    unlink((ctx.scratch + "/t.bin").c_str());
    auto body2 = [&](uint64_t b, uint64_t e, const std::set<uint64_t> &skip, Stats &st, volatile uint64_t *cur) {
      std::string dir = ctx.scratch + "/s" + std::to_string(b); mkdir(dir.c_str(), 0755); if (chdir(dir.c_str())) exit(3);
      for (uint64_t i = b; i < e; i++) {
        *cur = i; if (skip.count(i)) continue;
        auto &p = progs[i];
        auto img = refisa::parseImage(p.file);
        Machine ref; Env env; env.in = p.input; ref.loadWords(img.body);
        uint64_t steps = 0; bool ok = true;
        while (!env.exited && steps < 30000000) { if (ref.classify(false) != refisa::DEFINED) { ok = false; break; } ref.step(env); steps++; }
        if (!ok || !env.exited) { st.add("shipped_skipped_not_defined_or_long"); st.add("shipped_skipped:" + p.name); continue; }
        spit(dir + "/p.bin", p.file);
        std::string symBase;
        for (int fill : FILLS) for (int tr = 0; tr < 2; tr++) {
          if (tr && steps > 300000) continue;
          simh::Sim s; s.create(fill, 0); scribbleStack((unsigned char)fill); ad::sim_load(s.v, (dir + "/p.bin").c_str()); s.setInput(p.input);
          { auto sy = ad::sim_symbols(s.v); std::string names; for (auto &q : sy) names += q.first + "@" + std::to_string(q.second) + " "; if (fill == FILLS[0] && tr == 0) symBase = names; else if (names != symBase) { st.violation("shipped:symbols-depend-on-host-memory", i, Obj().kv("family", "shipped").kv("program", p.name).kv("fill", fill).kv("what", "the symbol table as loaded differs between host-memory fills").str()); } }
          if (tr) ad::sim_set_tracing(s.v, true);
          int kind; std::string err; int rv = ad::sim_run(s.v, &kind, &err);
          st.add("runs"); st.add("shipped_runs");
          auto viol = [&](const std::string &sig, const std::string &what) { st.violation("shipped:" + sig, i, Obj().kv("family", "shipped").kv("program", p.name).kv("input_hex", hexs(p.input)).kv("fill", fill).kb("trace", tr).kv("what", what).str()); };
          if (kind) { viol("exception", err); continue; }
          if ((uint32_t)rv != env.exitValue) viol("status", "status " + std::to_string(rv) + " reference " + std::to_string((int32_t)env.exitValue));
          if (!tr && s.ob.data != env.out) viol("output", "output differs from reference");
          if (s.ib.consumed() != env.inPos) viol("consumption", "consumption differs");
          if (memcmp(s.v.mem, ref.mem.data(), refisa::MEM_WORDS * 4)) viol(tr ? "trace-memory" : "memory", "final memory differs from the reference run from zero memory");
        }
        unlink((dir + "/p.bin").c_str());
      }
      for (int n = 0; n < 8; n++) unlink(("simout" + std::to_string(n)).c_str());
      if (chdir(ctx.scratch.c_str())) exit(3);
      rmdir(dir.c_str());
    };
    auto r2 = run_chunks(ctx, "shipped", progs.size(), progs.size(), body2, [&](uint64_t i) { return Obj().kv("family", "shipped").kv("program", progs[i].name).str(); }, 120);
    rep.st.merge(r2.stats);
    if (!r2.complete) rep.caps.push_back("shipped: deadline");

    // ---- process level: repository-built hexsim under MALLOC_PERTURB_ x environment padding
    const char *cli = getenv("HEX_CLI");
    if (cli) {
      phase(ctx, "process level");
      std::vector<int> perturb = ctx.thorough() ? std::vector<int>{0, 1, 85, 170, 255, 7, 128} : std::vector<int>{0, 85, 170, 255};
      std::vector<size_t> pad = {0, 4096, 65536};
      std::vector<P> pp; for (auto &p : progs) if (p.name == "unwritten" || p.name.rfind("long-name:", 0) == 0 || (p.name == "fib.x" && p.input == "\x05") || (p.name == "hello_putval.x" && p.input.empty())) pp.push_back(p);
      // plus limited runs
      Stats st;
      spit(ctx.scratch + "/empty.in", "");
      int idx = 0;
      for (auto &p : pp) {
        std::string bin = ctx.scratch + "/pl.bin", in = ctx.scratch + "/pl.in"; spit(bin, p.file); spit(in, p.input);
        for (std::string lim : {std::string(""), std::string("50")}) {
          std::string first; int firstRc = 0; bool have = false;
          for (int pt : perturb) for (size_t pd : pad) {
            std::vector<std::string> env = {"MALLOC_PERTURB_=" + std::to_string(pt), "PAD=" + std::string(pd, 'x')};
            std::vector<std::string> av = {std::string(cli) + "/hexsim", bin};
            if (!lim.empty()) { av.push_back("--max-cycles"); av.push_back(lim); }
            std::string out; int rc = runProc(av, env, in, out, 30);
            st.add("process_runs");
            if (!have) { first = out; firstRc = rc; have = true; }
            else if (out != first || rc != firstRc) st.violation("process:depends-on-host-state", idx, Obj().kv("family", "process").kv("program", p.name).kv("max_cycles", lim).kv("perturb", pt).kv("env_pad", (uint64_t)pd).kv("what", "status " + std::to_string(rc) + " vs " + std::to_string(firstRc) + (out != first ? ", stdout differs" : "")).str());
          }
          idx++;
        }
        unlink(bin.c_str()); unlink(in.c_str());
      }
      // -t at process level: same exit status, same program output inside the trace, and the same amount of standard input consumed (the input is a regular file
      // with more bytes than the program reads; what counts is where the shared descriptor stands when the process has gone)
      {
        const char *echoSrc[] = {"proc main() is { 1(2(0), 0); 0(3) }", "proc main() is var c; { c := 2(0); c := 2(0); 1(c, 0); 0(c) }", "proc main() is 0(5)",
                                 "proc main() is var c; var n; { n := 0; c := 2(0); while ~(c = '.') do { n := n + 1; c := 2(0) }; 0(n) }"};
        int k = 0;
        for (auto src : echoSrc) for (const char *tool : {"hexsim", "xrun"}) {
          std::string bin = ctx.scratch + "/e.bin", xs = ctx.scratch + "/e.x", in = ctx.scratch + "/e.in";
          spit(xs, src); auto cr = ad::xcompile(src, ad::X_BINARY, bin); if (cr.status) { st.add("process_echo_not_compiled"); continue; }
          spit(in, "ab.cdefghijklmnopqrstuvwxyz 0123456789 the rest of this file is never read by the program\n");
          long off[2] = {-1, -1}; int rcs[2] = {0, 0};
          for (int tr = 0; tr < 2; tr++) {
            int fd = open(in.c_str(), O_RDONLY);
            pid_t pch = fork();
            if (pch == 0) { dup2(fd, 0); close(fd); if (!freopen("/dev/null", "wb", stdout) || !freopen("/dev/null", "wb", stderr)) _exit(126);
              std::string exe = std::string(cli) + "/" + tool; std::string arg = std::string(tool) == "xrun" ? xs : bin;
              if (tr) execl(exe.c_str(), exe.c_str(), "-t", arg.c_str(), (char *)nullptr); else execl(exe.c_str(), exe.c_str(), arg.c_str(), (char *)nullptr); _exit(127); }
            int status = 0; waitpid(pch, &status, 0);
            off[tr] = (long)lseek(fd, 0, SEEK_CUR); close(fd); rcs[tr] = WIFEXITED(status) ? WEXITSTATUS(status) : -WTERMSIG(status);
            st.add("process_runs");
          }
          if (rcs[0] != rcs[1]) st.violation("process:trace-changes-status", k, Obj().kv("family", "process-trace").kv("tool", tool).kv("source", src).kv("what", "status " + std::to_string(rcs[0]) + " without -t, " + std::to_string(rcs[1]) + " with -t").str());
          else if (off[0] != off[1]) st.violation("process:trace-changes-input-consumption", k, Obj().kv("family", "process-trace").kv("tool", tool).kv("source", src).kv("what", "standard input (a regular file) is left at offset " + std::to_string(off[0]) + " without -t and at " + std::to_string(off[1]) + " with -t").str());
          k++; unlink(bin.c_str()); unlink(xs.c_str()); unlink(in.c_str());
        }
      }
      unlink((ctx.scratch + "/empty.in").c_str());
      rep.st.merge(st);
    }
  }
  auto &c = rep.st.c;
  rep.evaluations = c["runs"] + c["process_runs"]; rep.states = c["images"] * INPUTS.size() + c["shipped_runs"]; rep.transitions = rep.evaluations; rep.validated = c["runs"];
  rep.nontrivial = c["images_x_inputs_complete"];
  rep.rule = "images = every byte sequence of length <=k over a 24-instruction alphabet (loads from never-written words, stores, branches, prefixes, SVC) followed by one of 3 epilogues that "
             "expose areg through exit/write/read; each image x 3 inputs is run under object fills 00/FF/A5 x trace off/on (complete runs) and under every cycle limit 1..len+1 x fills; "
             "compared with RefISA from all-zero memory (status, output, consumption, final registers, full final memory); non-trivial = (image,input) pairs whose reference run exits";
  rep.bounds.kv("sequence_length", maxK).kv("alphabet", NA).kv("epilogues", (uint64_t)EPI.size()).kv("inputs", (uint64_t)INPUTS.size()).kv("fills", 3);
  rep.assumptions = {"host memory state is modelled by the bytes the Processor object is constructed over (placement new into a pre-filled buffer, -fno-lifetime-dse) plus MALLOC_PERTURB_/environment size at process level",
                     "a cycle-limited run may return any status as long as it is the same under every fill; a run that exits within the limit must return the exit value"};
  rep.trusted = {"src/common/refisa.hpp", "src/common/simh.hpp"};
  return rep.finish();
}
