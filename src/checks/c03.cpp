// C03 — the Verilog processor (processor.sv + memory.sv under hex.sv) is cycle-for-cycle equivalent to the ISA simulator.
// Families: grid (planted single clocks), seq (every instruction sequence <= d from the start state), runs (shipped binaries in lock-step, harness as SVC shim).
#include <dirent.h>
#include <memory>
#include <verilated.h>
#include "Vhexsv.h"
#include "Vhexsv_hex.h"
#include "Vhexsv_processor.h"
#include "Vhexsv_memory.h"
#include "common/mc.hpp"
#include "common/refisa.hpp"
#include "common/simh.hpp"
#include "adapters/tools.hpp"

using namespace mc;
using refisa::Machine; using refisa::Env;
static Ctx ctx;
double sc_time_stamp() { return 0; }
// Re-evaluates the whole combinational network of the Verilated model.  State planted from C++ between eval() calls is not seen by
// Verilator's change tracking, so the settle region is run explicitly after planting (generated function, see Vhexsv.cpp).
class Vhexsv___024root;
void Vhexsv___024root___eval_settle(Vhexsv___024root *vlSelf);

struct Rtl {
  std::unique_ptr<VerilatedContext> vc; std::unique_ptr<Vhexsv> top;
  Rtl() {
    vc.reset(new VerilatedContext); vc->debug(0); vc->randReset(0); vc->threads(1);
    const char *av[] = {"c03"}; vc->commandArgs(1, av);
    top.reset(new Vhexsv(vc.get(), "TOP"));
    top->i_clk = 0; top->i_rst = 0; top->eval();
  }
  ~Rtl() { top->final(); }
  uint32_t &pc() { return top->hex->u_processor->pc_q; }
  uint32_t &a() { return top->hex->u_processor->areg_q; }
  uint32_t &b() { return top->hex->u_processor->breg_q; }
  uint32_t &o() { return top->hex->u_processor->oreg_q; }
  uint32_t &mem(uint32_t i) { return top->hex->u_memory->memory_q[i]; }
  void plant(uint32_t pc_, uint32_t a_, uint32_t b_, uint32_t o_) { pc() = pc_; a() = a_; b() = b_; o() = o_; }
  void settle() { Vhexsv___024root___eval_settle(top->rootp); }
  void low() { top->i_clk = 0; top->eval(); }
  void high() { top->i_clk = 1; top->eval(); }
  void reset() { top->i_rst = 1; low(); high(); low(); top->i_rst = 0; low(); }
};

static std::vector<uint32_t> cornerSet(bool deep) {
  bool thorough = true;
  std::vector<uint32_t> k = {0, 1, 2, 3, 0xF, 0x10, 199998, 199999, 200000, 0x7FFFFFFF, 0x80000000u, 0xFFFFFFF0u, 0xFFFFFFFFu, 0xFFFFFFFEu, 0xFFFFFF00u,
                             0x11, 0xFF, 0x100, 0xFFF, 0x1000, 799996, 799999, 800000, 0x7FFFF, 0x80000, 0x1FFFFF, 0x200000, 0xFFF80000u, 0xFFE00000u, 0x12345678u};
  for (int b : {4, 8, 15, 16, 17, 18, 19, 20, 21, 22, 24, 30, 31}) { k.push_back(1u << b); k.push_back((1u << b) - 1); if (thorough) { k.push_back(~(1u << b)); k.push_back((1u << b) + 1); k.push_back(0u - (1u << b)); } }
  if (thorough) for (uint32_t v = 0; v < 8; v++) { k.push_back(199992 + v); k.push_back(0xFFFFFFF8u + v); k.push_back(4 + v); }
  if (deep) { for (int b = 5; b < 32; b++) { k.push_back((1u << b) + 16); k.push_back((1u << b) - 16); k.push_back(~(1u << b) - 1); k.push_back((3u << (b - 1))); k.push_back(0u - (3u << (b - 1))); } for (uint32_t v = 0; v < 16; v++) { k.push_back(0x30D30 + v); k.push_back(0xC34F0 + v); k.push_back(0x12 + v); k.push_back(0x7FFF0 + v); k.push_back(0xFFFF0 + v); k.push_back(0x1FFFF0 + v); } }
  std::sort(k.begin(), k.end()); k.erase(std::unique(k.begin(), k.end()), k.end());
  return k;
}
static const uint32_t PCS[] = {0, 1, 2, 3, 400000, 400002, 799996, 799997, 799998};
static inline uint32_t pattern(uint32_t i) { return (i * 2654435761u) ^ 0x5bd1e995u ^ (i << 7); }

struct Trio {
  Rtl rtl; simh::Sim sim; Machine ref; Env env;
  void init(bool patterned) {
    sim.calibrate(); sim.create();
    for (uint32_t i = 0; i < refisa::MEM_WORDS; i++) { uint32_t v = patterned ? pattern(i) : 0; ref.mem[i] = v; sim.v.mem[i] = v; rtl.mem(i) = v; }
    ref.logWrites = true;
  }
  void setRegs(uint32_t pc, uint32_t a, uint32_t b, uint32_t o) { ref.pc = pc; ref.areg = a; ref.breg = b; ref.oreg = o; *sim.v.pc = pc; *sim.v.areg = a; *sim.v.breg = b; *sim.v.oreg = o; rtl.plant(pc, a, b, o); }
  void poke(uint32_t ad, uint32_t v) { ref.mem[ad] = v; sim.v.mem[ad] = v; rtl.mem(ad) = v; }
  // one clock / one instruction on all three; returns "" or mismatch. Caller guarantees classify(true)==DEFINED.
  std::string clock(size_t &markOut, bool &wasSvc) {
    uint8_t byte = ref.fetchByte(ref.pc);
    rtl.settle();
    rtl.low();
    bool svcExpected = byte == 0xD3;  // the RTL decodes the instruction's own operand nibble
    std::string res;
    if ((bool)rtl.top->o_syscall_valid != svcExpected) res = "o_syscall_valid=" + std::to_string(rtl.top->o_syscall_valid) + " for instruction byte " + std::to_string(byte);
    if (res.empty() && svcExpected && rtl.top->o_syscall != (ref.areg & 3)) res = "o_syscall=" + std::to_string(rtl.top->o_syscall) + " but areg&3=" + std::to_string(ref.areg & 3);
    wasSvc = svcExpected && (ref.oreg | 3) == 3;
    size_t mark = ref.wlog.size(); markOut = mark;
    ref.step(env);
    int kind; std::string err; sim.step(&kind, &err);
    rtl.high();
    if (wasSvc) { for (size_t i = mark; i < ref.wlog.size(); i++) rtl.mem(ref.wlog[i].first) = ref.mem[ref.wlog[i].first]; }  // harness plays the shim
    if (res.empty() && kind) res = "hexsim threw: " + err;
    uint32_t spc = *sim.v.pc, sa = *sim.v.areg, sb = *sim.v.breg, so = *sim.v.oreg;
    if (res.empty() && (rtl.pc() != spc || rtl.a() != sa || rtl.b() != sb || rtl.o() != so))
      res = "after the clock rtl{" + simh::regs(rtl.pc(), rtl.a(), rtl.b(), rtl.o()) + "} hexsim{" + simh::regs(spc, sa, sb, so) + "}";
    if (res.empty() && (ref.pc != spc || ref.areg != sa || ref.breg != sb || ref.oreg != so)) res = "hexsim departs from the ISA reference (see C02)";
    if (res.empty()) for (size_t i = mark; i < ref.wlog.size(); i++) { uint32_t ad = ref.wlog[i].first; if (rtl.mem(ad) != sim.v.mem[ad]) { char b[160]; snprintf(b, sizeof b, "memory word %u: rtl 0x%08x hexsim 0x%08x", ad, rtl.mem(ad), sim.v.mem[ad]); res = b; } }
    return res;
  }
  void undo(size_t mark) {
    for (size_t i = ref.wlog.size(); i > mark; i--) { uint32_t ad = ref.wlog[i - 1].first, old = ref.wlog[i - 1].second; sim.v.mem[ad] = old; rtl.mem(ad) = old; }
    ref.undoTo(mark);
    sim.ob.data.clear(); *sim.v.running = true; env.exited = false; env.out.clear();
  }
  int memDiff() { for (uint32_t i = 0; i < refisa::MEM_WORDS; i++) if (rtl.mem(i) != sim.v.mem[i]) return (int)i; return -1; }
  void resync() { for (uint32_t i = 0; i < refisa::MEM_WORDS; i++) { sim.v.mem[i] = ref.mem[i]; rtl.mem(i) = ref.mem[i]; } }
};

struct GridCase { uint32_t byte, pc, o, a, b; };
static std::string gridJson(const GridCase &c) { return Obj().kv("family", "grid").kv("byte", c.byte).kv("pc", c.pc).kv("oreg", c.o).kv("areg", c.a).kv("breg", c.b).str(); }
static std::string sigOf(uint32_t byte, const std::string &w) {
  std::string k = w.find("o_syscall") == 0 ? "syscall-request" : w.find("memory word") == 0 ? "store" : w.find("stray") == 0 ? "stray-write" : w.find("hexsim") == 0 ? "hexsim" : "regs";
  return std::string("clock:") + refisa::MNEM[byte >> 4] + ":" + k;
}
static std::string gridExec(Trio &T, const GridCase &c, Stats &st, bool count) {
  uint32_t w = c.pc >> 2, lane = c.pc & 3; uint32_t saved = T.ref.mem[w], word = 0;
  static const uint8_t X[4] = {0x00, 0xFF, 0x5A, 0xA5};
  for (uint32_t l = 0; l < 4; l++) word |= (uint32_t)((l == lane) ? c.byte : ((c.byte ^ X[(l - lane) & 3]) & 0xFF)) << (8 * l);
  T.poke(w, word);
  uint32_t s1 = T.ref.mem[1];
  bool svc = c.byte == 0xD3 && (c.o | 3) == 3;
  if (svc) T.poke(1, 1000);  // a valid stack pointer so that the system-call slots are in range
  T.setRegs(c.pc, c.a, c.b, c.o);
  T.env.in = "Z"; T.env.inPos = 0; T.sim.setInput("Z");
  std::string res;
  auto cls = T.ref.classify(true);
  if (cls == refisa::DEFINED) {
    size_t mark; bool wasSvc;
    res = T.clock(mark, wasSvc);
    if (count) { st.add("grid_clocks"); if (wasSvc) st.add("grid_svc_clocks"); }
    T.undo(mark);
  } else if (count) st.add(cls == refisa::OUT_OF_RANGE ? "grid_skipped_out_of_range" : "grid_skipped_undefined");
  if (svc) T.poke(1, s1);
  T.poke(w, saved);
  return res;
}

static const uint8_t SIGMA[] = {0x00, 0x01, 0x11, 0x21, 0x22, 0x30, 0x31, 0x3F, 0x41, 0x4F, 0x50, 0x5F, 0x60, 0x61, 0x71, 0x80, 0x81, 0x90, 0x91, 0x9F,
                                0xA1, 0xB1, 0xD0, 0xD1, 0xD2, 0xD3, 0xE0, 0xE1, 0xEF, 0xF0, 0xFF, 0xFE};
static const int NS = sizeof(SIGMA);

static std::vector<std::string> listDir(const std::string &d, const std::string &suffix) {
  std::vector<std::string> r; DIR *dir = opendir(d.c_str()); if (!dir) return r;
  while (auto e = readdir(dir)) { std::string n = e->d_name; if (n.size() > suffix.size() && n.substr(n.size() - suffix.size()) == suffix) r.push_back(n); }
  closedir(dir); std::sort(r.begin(), r.end()); return r;
}

int main(int argc, char **argv) {
  ctx = parse_args("C03", argc, argv, 300, 1500);
  if (chdir(ctx.scratch.c_str())) harness_fail("chdir");
  Report rep; rep.ctx = ctx;
  auto K = cornerSet(ctx.thorough()); uint64_t nk = K.size(); const uint64_t NPC = sizeof(PCS) / sizeof(PCS[0]);
  // oreg only ever holds 0 or a value shifted left by 4 (PFIX/NFIX), so states with a non-zero low nibble are unreachable from reset;
  // the RTL decodes OPR/SVC from the instruction's own nibble and is only required to agree on reachable states.
  std::vector<uint32_t> KO; for (auto v : K) KO.push_back(v & ~0xFu); std::sort(KO.begin(), KO.end()); KO.erase(std::unique(KO.begin(), KO.end()), KO.end());
  uint64_t nko = KO.size();
  if (!ctx.replayPath.empty()) {
    JV v; if (!jparse(slurp(ctx.replayPath), v)) harness_fail("cannot parse replay");
    const JV *c = v.get("case"); if (c && c->get("case")) c = c->get("case"); if (!c) harness_fail("no case");
    if (c->str("family") == "grid") {
      Trio T; T.init(true); Stats st;
      GridCase g{(uint32_t)c->num("byte"), (uint32_t)c->num("pc"), (uint32_t)c->num("oreg"), (uint32_t)c->num("areg"), (uint32_t)c->num("breg")};
      std::string r = gridExec(T, g, st, false);
      printf("replay %s => %s\n", gridJson(g).c_str(), r.empty() ? "agrees" : r.c_str());
      if (!r.empty()) { printf("VIOLATION property=C03 replay=%s\n", ctx.replayPath.c_str()); return 1; }
      return 0;
    }
    printf("replay of family %s: re-run the tier\n", c->str("family").c_str()); return 0;
  }
  // self-test: planting is honoured by the model (LDAC 5 at pc 0 sets areg_q)
  {
    Rtl r; r.mem(0) = 0x35; r.plant(0, 9, 9, 0); r.settle(); r.low(); r.high();
    if (r.a() != 5 || r.pc() != 1) harness_fail("planted RTL state is not honoured by eval()");
  }
  // ================= grid
  phase(ctx, "grid: 256 bytes x " + std::to_string(NPC) + " pcs x " + std::to_string(nk) + "^3 corners");
  {
    auto body = [&](uint64_t b, uint64_t e, const std::set<uint64_t> &skip, Stats &st, volatile uint64_t *cur) {
      Trio T; T.init(true);
      for (uint64_t u = b; u < e; u++) {
        *cur = u; if (skip.count(u)) continue;
        if (ctx.expired()) { st.add("grid_units_skipped_deadline"); continue; }
        uint32_t byte = u / NPC, pc = PCS[u % NPC]; uint32_t op = byte >> 4;
        bool usesA = op == 2 || op == 6 || op == 8 || op == 0xA || op == 0xB || op == 0xD, usesB = op == 7 || op == 8 || op == 0xD;
        for (uint64_t io = 0; io < nko; io++) for (uint64_t ia = 0; ia < nk; ia++) for (uint64_t ib = 0; ib < nk; ib++) {
          if ((!usesA && ia > 1) || (!usesB && ib > 1)) continue;
          GridCase c{byte, pc, KO[io], K[ia], K[ib]};
          std::string r = gridExec(T, c, st, true);
          if (!r.empty()) { st.violation(sigOf(byte, r), io * 1000000 + ia * 1000 + ib, Obj().raw("case", gridJson(c)).kv("what", r).str()); }
        }
        int d = T.memDiff();
        st.add("full_memory_compares");
        if (d >= 0) { st.violation(std::string("clock:") + refisa::MNEM[op] + ":stray-write", u, Obj().kv("family", "grid").kv("byte", byte).kv("pc", pc).kv("what", "memory word " + std::to_string(d) + " differs after the unit").str()); T.resync(); }
        if (u % 101 == 0) st.sample(gridJson(GridCase{byte, pc, KO[u % nko], K[(u / 3) % nk], K[(u / 7) % nk]}), 3);
      }
    };
    auto r = run_chunks(ctx, "grid", 256 * NPC, 256, body, [&](uint64_t u) { return Obj().kv("family", "grid").kv("byte", (uint64_t)(u / NPC)).kv("pc", PCS[u % NPC]).str(); }, 300);
    rep.st.merge(r.stats);
    if (!r.complete || rep.st.c["grid_units_skipped_deadline"]) rep.caps.push_back("grid: deadline");
  }
  // ================= seq: every instruction sequence of length <= d at address 0, run from the start state until exit / undefined / step cap
  int depth = ctx.thorough() ? 6 : 4, done = 0;
  for (int d = 1; d <= depth; d++) {
    if (ctx.expired()) { rep.caps.push_back("seq: deadline before length " + std::to_string(d)); break; }
    uint64_t total = 1; for (int i = 0; i < d; i++) total *= NS;
    phase(ctx, "seq length " + std::to_string(d) + ": " + std::to_string(total) + " sequences x 2 inputs");
    auto body = [&](uint64_t b, uint64_t e, const std::set<uint64_t> &skip, Stats &st, volatile uint64_t *cur) {
      Trio T; T.init(false);
      for (uint64_t i = b; i < e; i++) {
        *cur = i; if (skip.count(i)) continue;
        std::string seq(d, '\0'); uint64_t r = i; for (int k = d - 1; k >= 0; k--) { seq[k] = (char)SIGMA[r % NS]; r /= NS; }
        for (const char *input : {"", "A"}) {
          uint32_t words = (d + 3) / 4;
          for (uint32_t w = 0; w < words; w++) { uint32_t v = 0; for (int l = 0; l < 4; l++) if (w * 4 + l < (uint32_t)d) v |= (uint32_t)(uint8_t)seq[w * 4 + l] << (8 * l); T.poke(w, v); }
          // start state: the registers hold arbitrary values (as at power-on), then reset is applied the way the testbench applies it
          // (asserted over rising clock edges, then released); the RTL must come out of it with pc=areg=breg=oreg=0 like the simulator starts
          T.rtl.plant(K[(i * 7 + 1) % nk] & 0x1FFFFF, K[(i * 3 + 2) % nk], K[(i * 5 + 3) % nk], K[(i + 4) % nk] & ~0xFu);
          T.rtl.settle();
          T.rtl.top->i_rst = 1; T.rtl.high(); T.rtl.low(); T.rtl.high(); T.rtl.low(); T.rtl.top->i_rst = 0; T.rtl.low();
          if (T.rtl.pc() || T.rtl.a() || T.rtl.b() || T.rtl.o()) {
            st.violation("reset:registers-not-cleared", i, Obj().kv("family", "seq").kv("bytes_hex", hexs(seq)).kv("what", "after reset rtl{" + simh::regs(T.rtl.pc(), T.rtl.a(), T.rtl.b(), T.rtl.o()) + "} but the simulator starts from all zeros").str());
            T.rtl.plant(0, 0, 0, 0);
          }
          st.add("seq_resets_from_dirty_registers");
          { uint32_t sp = T.ref.pc; (void)sp; }
          T.ref.pc = T.ref.areg = T.ref.breg = T.ref.oreg = 0; *T.sim.v.pc = *T.sim.v.areg = *T.sim.v.breg = *T.sim.v.oreg = 0;
          T.env = Env(); T.env.in = input; T.sim.setInput(input);
          size_t mark0 = T.ref.wlog.size(); std::string res; int steps = 0; uint8_t lastByte = 0;
          while (steps < 24 && !T.env.exited) {
            if (T.ref.classify(true) != refisa::DEFINED) { st.add("seq_stopped_undefined_or_oor"); break; }
            lastByte = T.ref.fetchByte(T.ref.pc);
            size_t mark; bool svc; res = T.clock(mark, svc); steps++;
            if (!res.empty()) break;
          }
          st.add("seq_clocks", steps); st.add("seq_runs");
          if (!res.empty()) st.violation("seq:" + sigOf(lastByte, res), i, Obj().kv("family", "seq").kv("bytes_hex", hexs(seq)).kv("input_hex", hexs(input)).kv("step", steps).kv("what", res).str());
          // undo everything
          for (size_t k = T.ref.wlog.size(); k > mark0; k--) { uint32_t ad = T.ref.wlog[k - 1].first, old = T.ref.wlog[k - 1].second; T.sim.v.mem[ad] = old; T.rtl.mem(ad) = old; }
          T.ref.undoTo(mark0);
          for (uint32_t w = 0; w < words; w++) T.poke(w, 0);
          T.sim.ob.data.clear(); *T.sim.v.running = true;
          st.outcome(mix(mix(T.ref.pc, T.ref.areg), steps));
        }
        if (i % 20011 == 0) st.sample(Obj().kv("family", "seq").kv("bytes_hex", hexs(seq)).str(), 3);
      }
      int dd = T.memDiff(); if (dd >= 0) st.violation("seq:stray-write", b, Obj().kv("family", "seq").kv("chunk_begin", b).kv("what", "memory word " + std::to_string(dd) + " differs at end of chunk").str());
      T.sim.destroy();
      for (int n = 0; n < 8; n++) unlink(("simout" + std::to_string(n)).c_str());
    };
    auto r = run_chunks(ctx, "seq" + std::to_string(d), total, 256, body, [&](uint64_t i) { return Obj().kv("family", "seq").kv("index", i).kv("length", d).str(); }, 120);
    rep.st.merge(r.stats);
    if (r.complete) done = d; else { rep.caps.push_back("seq: length " + std::to_string(d) + " incomplete"); break; }
  }
  // ================= runs: shipped programs, RTL vs hexsim every clock, harness as system-call shim
  {
    phase(ctx, "runs");
    struct P { std::string name, file, input; };
    std::vector<P> progs;
    for (auto &n : listDir(ctx.repo + "/tests/asm", ".S")) { if (n == "xhexb.S") continue; auto r = ad::assemble_text(slurp(ctx.repo + "/tests/asm/" + n), ad::A_FILE, ctx.scratch + "/t.bin"); if (r.kind == 0) progs.push_back({n, r.file, ""}); }
    for (auto &n : listDir(ctx.repo + "/tests/x", ".x")) {
      if (n == "xhexb.x" && !ctx.thorough()) continue;
      auto r = ad::xcompile(slurp(ctx.repo + "/tests/x/" + n), ad::X_BINARY, ctx.scratch + "/t.bin");
      if (r.status == 0) { std::string f = slurp(ctx.scratch + "/t.bin"); for (std::string in : {std::string(""), std::string("\x05"), std::string("a\n")}) progs.push_back({n, f, n == "xhexb.x" ? slurp(ctx.repo + "/tests/x/hello_putval.x") : in}); }
    }
    unlink((ctx.scratch + "/t.bin").c_str());
    auto body = [&](uint64_t b, uint64_t e, const std::set<uint64_t> &skip, Stats &st, volatile uint64_t *cur) {
      std::string dir = ctx.scratch + "/r" + std::to_string(b); mkdir(dir.c_str(), 0755); if (chdir(dir.c_str())) exit(3);
      for (uint64_t i = b; i < e; i++) {
        *cur = i; if (skip.count(i)) continue;
        Trio T; T.init(false);
        auto img = refisa::parseImage(progs[i].file);
        T.ref.logWrites = false;
        Machine tmp; tmp.loadWords(img.body);
        for (uint32_t w = 0; w < img.nwords && w < refisa::MEM_WORDS; w++) T.poke(w, tmp.mem[w]);
        T.rtl.reset(); T.setRegs(0, 0, 0, 0);
        T.env = Env(); T.env.in = progs[i].input; T.sim.setInput(progs[i].input);
        uint64_t cap = ctx.thorough() ? 200000000ull : 3000000ull, steps = 0; std::string res;
        T.ref.logWrites = true;
        while (!T.env.exited && steps < cap) {
          if (T.ref.classify(true) != refisa::DEFINED) { st.add("runs_stopped_undefined_or_oor"); break; }
          size_t mark; bool svc; res = T.clock(mark, svc); steps++;
          if (!res.empty()) break;
          if (T.ref.wlog.size() > (1u << 20)) T.ref.wlog.clear();
          if ((steps & 0xFFFFF) == 0) { int d = T.memDiff(); if (d >= 0) { res = "memory word " + std::to_string(d) + " differs (periodic full compare)"; break; } }
        }
        if (res.empty()) { int d = T.memDiff(); if (d >= 0) res = "memory word " + std::to_string(d) + " differs at the end"; }
        st.add("runs_programs"); st.add("runs_clocks", steps);
        if (!res.empty()) st.violation("runs:" + progs[i].name, i, Obj().kv("family", "runs").kv("program", progs[i].name).kv("input_hex", hexs(progs[i].input.substr(0, 32))).kv("step", steps).kv("what", res).str());
        T.sim.destroy();
        for (int n = 0; n < 8; n++) unlink(("simout" + std::to_string(n)).c_str());
      }
      if (chdir(ctx.scratch.c_str())) exit(3);
      rmdir(dir.c_str());
    };
    auto r = run_chunks(ctx, "runs", progs.size(), progs.size(), body, [&](uint64_t i) { return Obj().kv("family", "runs").kv("program", progs[i].name).str(); }, 900);
    rep.st.merge(r.stats);
    if (!r.complete) rep.caps.push_back("runs: deadline");
  }
  auto &c = rep.st.c;
  rep.evaluations = c["grid_clocks"] + c["seq_clocks"] + c["runs_clocks"];
  rep.states = c["grid_clocks"] + c["seq_runs"]; rep.transitions = rep.evaluations; rep.validated = rep.evaluations;
  rep.nontrivial = c["grid_clocks"] + c["seq_runs"];
  rep.rule = "grid: every (instruction byte, pc lane, oreg, areg, breg) over the corner set, planted into the Verilated hex model and into hexsim, one clock vs one instruction; "
             "seq: every byte sequence of length <= d over a 32-byte alphabet at address 0 from the start state x 2 inputs, clocked until exit/undefined/24 steps; runs: shipped binaries; "
             "after every rising edge pc/areg/breg/oreg and the written word are compared with hexsim, o_syscall_valid/o_syscall are checked before the edge; "
             "steps outside the range both implementations provide (per RefISA) are skipped; distinct by construction";
  rep.bounds.kv("corner_set_size", nk).kv("oreg_corner_set_size", nko).kv("pc_lanes", NPC).kv("seq_length_completed", done).kv("seq_alphabet", (uint64_t)NS);
  rep.assumptions = {"system calls are serviced by the harness using the ISA definition (the shim itself is C06/C13's subject)", "no unbounded RTL proof: register values outside the corner set are not covered (no yosys/SymbiYosys in the image)"};
  rep.trusted = {"Verilator 5.006 model with --public-flat-rw", "src/common/refisa.hpp for the domain filter"};
  return rep.finish();
}
