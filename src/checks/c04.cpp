// C04 — assembler prefix encoding reconstructs every 32-bit operand exactly.
// Object path: InstrImm directives through hexasm::CodeGen/emitProgramBin for every value (thorough: all 2^32 x 12 mnemonics).
// Text path: "<MNEM> <v>" and "<MNEM> -<n>" through Lexer/Parser/CodeGen (thorough: complete for one mnemonic per parser group).
#include "common/mc.hpp"
#include "common/refisa.hpp"
#include "adapters/tools.hpp"

using namespace mc;
static Ctx ctx;
static const int NM = 12;
static const uint64_t BLK = 4096;

// Decode `bytes` by the ISA prefix rule; instruction i must be opcode opc[i], deliver val[i], and occupy size[i] bytes.
// Returns -1 if all good, else the index of the first bad instruction; what describes it.
static long decodeCheck(const std::string &bytes, size_t n, int opc, const int32_t *vals, const uint32_t *sizes, uint32_t progSize, std::string &what) {
  size_t p = 0;
  for (size_t i = 0; i < n; i++) {
    uint32_t o = 0; size_t start = p;
    while (true) {
      if (p >= bytes.size()) { what = "image ends inside instruction"; return (long)i; }
      uint8_t b = bytes[p++];
      o |= b & 15;
      uint8_t op = b >> 4;
      if (op == 0xE) { o <<= 4; continue; }
      if (op == 0xF) { o = 0xFFFFFF00u | (o << 4); continue; }
      if (op != opc) { what = "opcode byte " + std::to_string(op) + " instead of " + std::to_string(opc); return (long)i; }
      break;
    }
    if (o != (uint32_t)vals[i]) { char b[128]; snprintf(b, sizeof b, "delivers 0x%08x instead of 0x%08x", o, (uint32_t)vals[i]); what = b; return (long)i; }
    if (sizes && p - start != sizes[i]) { what = "occupies " + std::to_string(p - start) + " bytes but getSize() says " + std::to_string(sizes[i]); return (long)i; }
    if (p - start > 8) { what = "encoding longer than 8 bytes"; return (long)i; }
  }
  size_t padded = (p + 3) & ~(size_t)3;
  if (bytes.size() != padded) { what = "image size " + std::to_string(bytes.size()) + " != padded instruction bytes " + std::to_string(padded); return (long)n - 1; }
  for (size_t q = p; q < bytes.size(); q++) if (bytes[q] != 0) { what = "non-zero trailing padding"; return (long)n - 1; }
  if (progSize != 0xFFFFFFFFu && progSize != bytes.size()) { what = "header size " + std::to_string(progSize) + " != image size " + std::to_string(bytes.size()); return (long)n - 1; }
  return -1;
}

static std::string valClass(int32_t v) {
  if (v == INT32_MIN) return "INT_MIN";
  if (v == INT32_MAX) return "INT_MAX";
  if (v == 0) return "zero";
  uint32_t m = v < 0 ? (uint32_t)(-(int64_t)v) : (uint32_t)v;
  int nib = 0; while (m) { nib++; m >>= 4; }
  return std::string(v < 0 ? "neg" : "pos") + std::to_string(nib) + "nib";
}

static std::vector<int32_t> gridValues() {
  std::set<int32_t> s = {0, 1, -1, INT32_MAX, INT32_MIN, INT32_MIN + 1, INT32_MAX - 1};
  for (int k = 0; k < 8; k++) for (int d = -2; d <= 2; d++) { int64_t p = (int64_t)1 << (4 * k); for (int sg : {1, -1}) { int64_t v = sg * (p + d); if (v >= INT32_MIN && v <= INT32_MAX) s.insert((int32_t)v); } }
  for (int k = 0; k < 32; k++) for (int d = -1; d <= 1; d++) { int64_t p = (int64_t)1 << k; for (int sg : {1, -1}) { int64_t v = sg * (p + d); if (v >= INT32_MIN && v <= INT32_MAX) s.insert((int32_t)v); } }
  for (uint64_t u = 0; u < (1ull << 32); u += 8191) s.insert((int32_t)(uint32_t)u);
  return std::vector<int32_t>(s.begin(), s.end());
}

static void checkObjBlock(int opc, const int32_t *vals, size_t n, Stats &st, uint64_t order) {
  std::string bytes; std::vector<uint32_t> sizes; uint32_t ps = 0;
  ad::assemble_imm_block(opc, vals, n, bytes, sizes, ps);
  std::string what;
  long bad = decodeCheck(bytes, n, opc, vals, sizes.data(), ps, what);
  st.add("object_directives", n);
  if (bad >= 0) {
    // isolate: re-assemble the single value alone to attribute exactly
    size_t cnt = 0;
    for (size_t i = 0; i < n; i++) {
      std::string b1; std::vector<uint32_t> s1; uint32_t p1; std::string w1;
      ad::assemble_imm_block(opc, vals + i, 1, b1, s1, p1);
      if (decodeCheck(b1, 1, opc, vals + i, s1.data(), p1, w1) >= 0) {
        st.violation("encode:object:" + valClass(vals[i]), order + i, Obj().kv("family", "object").kv("mnemonic", refisa::MNEM[opc]).kv("value", (int64_t)vals[i]).kv("bytes_hex", hexs(b1)).kv("what", w1).str());
        cnt++;
      }
    }
    if (!cnt) st.violation("encode:object:block-only", order, Obj().kv("family", "object").kv("mnemonic", refisa::MNEM[opc]).kv("first_value", (int64_t)vals[0]).kv("what", what).str());
  }
}

// spelling 0: unsigned decimal of (uint32)v ; spelling 1: "-n" with n = -(int64)v  (v<=0 only... n in [0,2^31])
static void checkTextBlock(int opc, const std::vector<int32_t> &vals, int spelling, Stats &st, uint64_t order) {
  std::string src; src.reserve(vals.size() * 18);
  char buf[40];
  for (auto v : vals) {
    if (spelling == 0) snprintf(buf, sizeof buf, "%s %u\n", refisa::MNEM[opc], (uint32_t)v);
    else snprintf(buf, sizeof buf, "%s -%lld\n", refisa::MNEM[opc], (long long)(-(int64_t)v));
    src += buf;
  }
  auto r = ad::assemble_text(src, ad::A_BIN);
  st.add("text_directives", vals.size());
  std::string what; long bad = -1;
  if (r.kind != 0) { what = "rejected: " + r.err; bad = 0; }
  else bad = decodeCheck(r.bin, vals.size(), opc, vals.data(), nullptr, 0xFFFFFFFFu, what);
  if (bad >= 0) {
    size_t cnt = 0;
    for (auto v : vals) {
      if (spelling == 0) snprintf(buf, sizeof buf, "%s %u\n", refisa::MNEM[opc], (uint32_t)v); else snprintf(buf, sizeof buf, "%s -%lld\n", refisa::MNEM[opc], (long long)(-(int64_t)v));
      auto r1 = ad::assemble_text(buf, ad::A_BIN); std::string w1;
      bool b = r1.kind != 0 || decodeCheck(r1.bin, 1, opc, &v, nullptr, 0xFFFFFFFFu, w1) >= 0;
      if (b) { st.violation("encode:text:" + valClass(v), order + cnt, Obj().kv("family", "text").kv("source", buf).kv("value", (int64_t)v).kv("bytes_hex", hexs(r1.bin)).kv("what", r1.kind ? "rejected: " + r1.err : w1).str()); cnt++; }
    }
    if (!cnt) st.violation("encode:text:block-only", order, Obj().kv("family", "text").kv("mnemonic", refisa::MNEM[opc]).kv("what", what).str());
  }
}

int main(int argc, char **argv) {
  ctx = parse_args("C04", argc, argv, 300, 1500);
  Report rep; rep.ctx = ctx;
  if (!ctx.replayPath.empty()) {
    JV v; if (!jparse(slurp(ctx.replayPath), v)) harness_fail("cannot parse replay");
    const JV *c = v.get("case"); if (!c) harness_fail("no case");
    Stats st; int32_t val = (int32_t)c->num("value");
    if (c->str("family") == "text") { std::string src = c->str("source"); int opc = 0; for (int i = 0; i < NM; i++) if (src.find(std::string(refisa::MNEM[i]) + " ") == 0) opc = i; checkTextBlock(opc, {val}, src.find('-') != std::string::npos, st, 0); }
    else { int opc = 0; for (int i = 0; i < NM; i++) if (c->str("mnemonic") == refisa::MNEM[i]) opc = i; checkObjBlock(opc, &val, 1, st, 0); }
    if (!st.viols.empty()) { printf("VIOLATION property=C04 replay=%s\n", ctx.replayPath.c_str()); return 1; }
    printf("replay: agrees\n"); return 0;
  }
  // decoder self-test (hand-assembled encodings from the ISA text)
  {
    struct T { const char *hex; int opc; int32_t v; } t[] = {{"30", 3, 0}, {"3f", 3, 15}, {"e130", 3, 16}, {"ff3f", 3, -1}, {"f03f", 3, -241 + 0}, {"efef3f", 3, 0xFFF}, {"ffe03f", 3, (int32_t)0xFFFFFF0F}, {"fee03f", 3, (int32_t)0xFFFFFE0F}};
    for (auto &x : t) { std::string b = unhex(x.hex); while (b.size() % 4) b += '\0'; std::string w; int32_t v = x.v; if (std::string(x.hex) == "f03f") v = (int32_t)0xFFFFFF0F; if (decodeCheck(b, 1, x.opc, &v, nullptr, 0xFFFFFFFFu, w) >= 0) harness_fail(std::string("decoder self-test failed on ") + x.hex + ": " + w); }
  }
  auto G = gridValues();
  phase(ctx, "grid: " + std::to_string(G.size()) + " values x 12 mnemonics x object/text");
  // ---- grid (both tiers): object path + both spellings for all 12 mnemonics
  {
    uint64_t nblk = (G.size() + BLK - 1) / BLK;
    auto body = [&](uint64_t b, uint64_t e, const std::set<uint64_t> &skip, Stats &st, volatile uint64_t *cur) {
      for (uint64_t u = b; u < e; u++) {
        *cur = u; if (skip.count(u)) continue;
        int opc = u / nblk; uint64_t blk = u % nblk;
        size_t lo = blk * BLK, hi = std::min<size_t>(G.size(), lo + BLK);
        checkObjBlock(opc, G.data() + lo, hi - lo, st, lo);
        std::vector<int32_t> vs(G.begin() + lo, G.begin() + hi), neg;
        checkTextBlock(opc, vs, 0, st, lo);
        for (auto v : vs) if (v <= 0) neg.push_back(v);
        if (!neg.empty()) checkTextBlock(opc, neg, 1, st, lo);
        st.add("grid_values", hi - lo);
        if (blk == 0) st.sample(Obj().kv("family", "grid").kv("mnemonic", refisa::MNEM[opc]).kv("first_value", (int64_t)G[lo]).kv("values", (uint64_t)(hi - lo)).str(), 3);
      }
    };
    auto r = run_chunks(ctx, "grid", NM * nblk, NM * nblk, body, [&](uint64_t u) { return Obj().kv("family", "grid").kv("unit", u).str(); }, 120);
    rep.st.merge(r.stats);
    if (!r.complete) rep.caps.push_back("grid incomplete");
  }
  bool objComplete = false; int textComplete = 0;
  if (ctx.thorough()) {
    // ---- complete object path: 12 mnemonics x 2^32 values
    phase(ctx, "object path: 12 x 2^32");
    const uint64_t nblkAll = (1ull << 32) / BLK;  // 2^20 blocks per mnemonic
    {
      auto body = [&](uint64_t b, uint64_t e, const std::set<uint64_t> &skip, Stats &st, volatile uint64_t *cur) {
        std::vector<int32_t> vals(BLK);
        for (uint64_t u = b; u < e; u++) {
          *cur = u; if (skip.count(u)) continue;
          int opc = u / nblkAll; uint64_t base = (u % nblkAll) * BLK;
          for (uint64_t i = 0; i < BLK; i++) vals[i] = (int32_t)(uint32_t)(base + i);
          checkObjBlock(opc, vals.data(), BLK, st, base);
          st.add("object_complete_values", BLK);
        }
      };
      auto r = run_chunks(ctx, "obj", NM * nblkAll, 3072, body, [&](uint64_t u) { return Obj().kv("family", "object").kv("mnemonic", refisa::MNEM[u / nblkAll]).kv("first_value", (int64_t)(int32_t)(uint32_t)((u % nblkAll) * BLK)).str(); }, 120);
      rep.st.merge(r.stats);
      objComplete = r.complete;
      if (!r.complete) rep.caps.push_back("object path: deadline before all 12 x 2^32 values (chunks done " + std::to_string(r.chunksDone) + "/" + std::to_string(r.chunksTotal) + ")");
    }
    // ---- complete text path for one mnemonic of each parser group: LDAC (absolute group) and BR (relative group)
    for (int opc : {3, 9}) {
      if (ctx.expired()) { rep.caps.push_back(std::string("text path for ") + refisa::MNEM[opc] + " not started (deadline)"); continue; }
      phase(ctx, std::string("text path complete: ") + refisa::MNEM[opc]);
      const uint64_t TB = 2048; const uint64_t nb = (1ull << 32) / TB;
      auto body = [&](uint64_t b, uint64_t e, const std::set<uint64_t> &skip, Stats &st, volatile uint64_t *cur) {
        std::vector<int32_t> vals(TB), neg;
        for (uint64_t u = b; u < e; u++) {
          *cur = u; if (skip.count(u)) continue;
          uint64_t base = u * TB; neg.clear();
          for (uint64_t i = 0; i < TB; i++) { vals[i] = (int32_t)(uint32_t)(base + i); if (vals[i] <= 0) neg.push_back(vals[i]); }
          checkTextBlock(opc, vals, 0, st, base);
          if (!neg.empty()) checkTextBlock(opc, neg, 1, st, base);
          st.add("text_complete_values", TB);
        }
      };
      auto r = run_chunks(ctx, std::string("txt") + refisa::MNEM[opc], nb, 2048, body, [&](uint64_t u) { return Obj().kv("family", "text").kv("mnemonic", refisa::MNEM[opc]).kv("first_value", (int64_t)(int32_t)(uint32_t)(u * TB)).str(); }, 120);
      rep.st.merge(r.stats);
      if (r.complete) textComplete++; else rep.caps.push_back(std::string("text path for ") + refisa::MNEM[opc] + ": deadline (chunks " + std::to_string(r.chunksDone) + "/" + std::to_string(r.chunksTotal) + ")");
    }
  }
  auto &c = rep.st.c;
  rep.evaluations = c["object_directives"] + c["text_directives"];
  rep.states = rep.evaluations; rep.transitions = rep.evaluations; rep.validated = rep.evaluations;
  rep.nontrivial = ctx.thorough() ? c["object_complete_values"] + c["text_complete_values"] + c["grid_values"] : c["grid_values"];
  rep.rule = "each case = one (mnemonic, value, path/spelling); the emitted bytes are decoded with the ISA prefix rule from oreg=0 and must deliver exactly the value, "
             "with the instruction's opcode, in exactly getSize() bytes; grid = 0, +-1, +-(16^k+{-2..2}), +-(2^k+{-1,0,1}), INT_MAX, INT_MIN, every 8191st value; "
             "thorough additionally enumerates all 2^32 values for all 12 mnemonics (object path) and for LDAC and BR (text path, unsigned and '-n' spellings); values are distinct by construction";
  rep.bounds.kv("grid_values", (uint64_t)G.size()).kv("mnemonics", NM).kb("object_path_complete_2^32", objComplete).kv("text_path_complete_mnemonics", textComplete);
  rep.exhaustive = ctx.thorough() ? (objComplete && textComplete == 2) : true;
  if (!ctx.thorough()) rep.extra.kv("note", "quick tier: exhaustive over the boundary grid only, not over the 2^32 value space");
  rep.assumptions = {"the prefix rule (PFIX: oreg<<4, NFIX: 0xFFFFFF00|oreg<<4, operand = oreg | low nibble) is as in hexb.pdf", "the literal spellings are unsigned decimals up to 2^32-1 and '-n' for n up to 2^31"};
  rep.trusted = {"decodeCheck in src/checks/c04.cpp (self-tested on hand-assembled encodings)"};
  return rep.finish();
}
