// C06 — a binary behaves identically on the RTL testbench (hextb) and on the simulator (hexsim).
// Binaries: compiled programs of the C01 corpus (defined per RefX) and the shipped programs; inputs from the read-answer search.
// In-process: hextb.cpp's load()/run() vs hexsim::Processor; process level: the two built executables.
#include <dirent.h>
#include "common/mc.hpp"
#include <fcntl.h>
#include "common/xgen.hpp"
#include "common/xrun.hpp"
#include "common/tbrun.hpp"

using namespace mc;
using refisa::Machine; using refisa::Env;
static Ctx ctx;

// Domain filter ("programs that never read memory they have not written"): the run must not DEPEND on words it has not written.  The reference
// executes the image three times, with every word outside the image pre-set to 0, A5A5A5A5 and 5A5A5A5A; the pair is in the domain iff all three
// runs stay in the range both implementations provide, exit, and agree in output, exit value, consumption and step count.  (A compiled program
// reloads the system-call result slot sp[1] after every call, also after exit/write which never write it: such a dead read does not exclude the pair.)
static uint64_t inDomain(const std::string &file, const std::string &input, uint64_t cap, std::string &why) {
  auto img = refisa::parseImage(file);
  static thread_local Machine m;
  std::string out0, files0[8]; uint32_t exit0 = 0; size_t in0 = 0; uint64_t steps0 = 0;
  for (int pass = 0; pass < 3; pass++) {
    uint32_t bg = pass == 0 ? 0 : pass == 1 ? 0xA5A5A5A5u : 0x5A5A5A5Au;
    std::fill(m.mem.begin(), m.mem.end(), bg);
    m.logWrites = false; m.logAccess = false; m.wlog.clear();
    m.loadWords(img.body);
    m.pc = m.areg = m.breg = m.oreg = 0;
    Env env; env.in = input; uint64_t steps = 0;
    while (!env.exited && steps < cap) {
      if (m.classify(true) != refisa::DEFINED) { why = pass ? "depends on words it has not written (leaves the defined range under another background)" : "leaves the range both implementations provide"; return 0; }
      m.step(env); steps++;
    }
    if (!env.exited) { why = pass ? "depends on words it has not written (does not exit under another background)" : "does not exit within the cap"; return 0; }
    if (pass == 0) { out0 = env.out; exit0 = env.exitValue; in0 = env.inPos; steps0 = steps; for (int n = 0; n < 8; n++) files0[n] = env.files[n]; }
    else {
      bool same = env.out == out0 && env.exitValue == exit0 && env.inPos == in0 && steps == steps0; for (int n = 0; n < 8; n++) if (env.files[n] != files0[n]) same = false;
      if (!same) { why = "reads words it has not written and its behaviour depends on them"; return 0; }
    }
  }
  return steps0;
}
// consumedOut: how far the standard-input file (a regular file opened by the parent and shared with the child) has been consumed when the process has gone: what a
// following reader of the same descriptor would no longer see
static int runProc(const std::vector<std::string> &argv, const std::string &cwd, const std::string &stdinPath, std::string &out, double timeout, long *consumedOut = nullptr) {
  std::string op = cwd + "/stdout.txt";
  int infd = open(stdinPath.c_str(), O_RDONLY);
  pid_t p = fork();
  if (p == 0) {
    if (chdir(cwd.c_str())) _exit(126);
    std::vector<char *> a; for (auto &s : argv) a.push_back((char *)s.c_str()); a.push_back(nullptr);
    if (infd < 0 || dup2(infd, 0) < 0 || !freopen(op.c_str(), "wb", stdout) || !freopen("/dev/null", "wb", stderr)) _exit(126);
    close(infd);
    child_limits((size_t)4 << 30);
    execv(a[0], a.data()); _exit(127);
  }
  double t0 = now(); int status = 0;
  while (true) { pid_t r = waitpid(p, &status, WNOHANG); if (r == p) break; if (now() - t0 > timeout) { kill(p, SIGKILL); waitpid(p, &status, 0); return -999; } usleep(300); }
  out = slurp(op);
  if (consumedOut) *consumedOut = infd >= 0 ? (long)lseek(infd, 0, SEEK_CUR) : -1;
  if (infd >= 0) close(infd);
  return WIFEXITED(status) ? WEXITSTATUS(status) : -WTERMSIG(status);
}

struct Item { std::string family, src; bool isAsm; std::vector<std::string> inputs; };

int main(int argc, char **argv) {
  ctx = parse_args("C06", argc, argv, 400, 1700);
  Report rep; rep.ctx = ctx; bool th = ctx.thorough();
  xgen::Corpus C; C.build(false);
  std::vector<Item> items;
  auto listDir = [&](const std::string &d, const std::string &suffix) { std::vector<std::string> r; DIR *dir = opendir(d.c_str()); if (dir) { while (auto e = readdir(dir)) { std::string n = e->d_name; if (n.size() > suffix.size() && n.substr(n.size() - suffix.size()) == suffix) r.push_back(n); } closedir(dir); } std::sort(r.begin(), r.end()); return r; };
  for (auto &n : listDir(ctx.repo + "/tests/x", ".x")) { if (n == "xhexb.x" && !th) continue; items.push_back({"shipped:" + n, slurp(ctx.repo + "/tests/x/" + n), false, n == "xhexb.x" ? std::vector<std::string>{slurp(ctx.repo + "/tests/x/hello_putval.x")} : std::vector<std::string>{"", "\x05", "a\n"}}); }
  for (auto &n : listDir(ctx.repo + "/tests/asm", ".S")) { if (n == "xhexb.S") continue; items.push_back({"shipped:" + n, slurp(ctx.repo + "/tests/asm/" + n), true, {""}}); }
  // far control flow: a DATA table of T words between the entry branch and the code, and a second block of code beyond a second table, so that BR,
  // BRZ, BRN, LDAP/BR call and BRB return all span more than 2^16 / 2^18 / 2^19 bytes (binaries larger than anything the compiler emits)
  for (uint32_t T : {1000u, 20000u, 70000u, 140000u}) {
    std::string tab; tab.reserve(T * 8); for (uint32_t i = 0; i < T; i++) tab += "DATA 0\n";
    std::string a = "BR start\nDATA 199000\n" + tab + "start\nLDAC 111\nLDBM 1\nSTAI 2\nLDAC 0\nLDAP ret\nBR far\nret\nLDAC 0\nBRZ back\nLDAC 9\nLDBM 1\nSTAI 2\nLDAC 0\nOPR SVC\n"
                    "back\nLDAC 0\nLDBC 1\nOPR SUB\nBRN neg\nLDAC 8\nLDBM 1\nSTAI 2\nLDAC 0\nOPR SVC\n" + (T >= 20000 ? tab.substr(0, (T / 4) * 7) : std::string()) +
                    "far\nLDBM 1\nSTAI 0\nLDAC 107\nLDBM 1\nSTAI 2\nLDAC 0\nSTAI 3\nLDAC 1\nOPR SVC\nLDBM 1\nLDBI 0\nOPR BRB\n"
                    "neg\nLDAC 33\nLDBM 1\nSTAI 2\nLDAC 0\nSTAI 3\nLDAC 1\nOPR SVC\nLDAC 7\nLDBM 1\nSTAI 2\nLDAC 0\nOPR SVC\n";
    items.push_back({"far:table" + std::to_string(T), a, true, {""}});
  }
  items.insert(items.begin(), Item{"regs-from-reset", "BR start\nDATA 1000\nstart\nBRZ za\nBR bad\nza\nOPR ADD\nBRZ zb\nBR bad\nzb\nOPR SUB\nBRN bad\nBRZ good\nbad\nLDAC 9\nLDBM 1\nSTAI 2\nLDAC 0\nOPR SVC\ngood\nLDAC 4\nLDBM 1\nSTAI 2\nLDAC 0\nOPR SVC\n", true, {""}});
  // the very first instruction after reset is something other than BR: each of these relies on a different piece of reset state (areg = 0, breg = 0, flags, memory port)
  {
    const char *EXIT1 = "LDAC 1\nLDBM 1\nSTAI 2\nLDAC 0\nOPR SVC\n", *EXIT3 = "LDAC 3\nLDBM 1\nSTAI 2\nLDAC 0\nOPR SVC\n", *EXITA = "LDBM 1\nSTAI 2\nLDAC 0\nOPR SVC\n";
    std::vector<std::pair<std::string, std::string>> firsts = {
      {"BRZ", std::string("BRZ hop\nBR fall\nDATA 1000\nhop\n") + EXIT1 + "fall\n" + EXIT3},
      {"BRN", std::string("BRN hop\nBR fall\nDATA 1000\nhop\n") + EXIT1 + "fall\n" + EXIT3},
      {"ADD", std::string("OPR ADD\nBR s\nDATA 1000\ns\n") + EXITA},
      {"SUB", std::string("OPR SUB\nBR s\nDATA 1000\ns\n") + EXITA},
      {"LDAI", std::string("LDAI 1\nBR s\nDATA 1000\ns\n") + EXITA},
      {"LDBI", std::string("LDBI 1\nBR s\nDATA 1000\ns\nLDAC 0\nOPR ADD\n") + EXITA},
      {"STAM", std::string("STAM 3\nBR s\nDATA 1000\nDATA 77\ns\nLDAM 3\n") + EXITA},
      {"STAI", std::string("STAI 3\nBR s\nDATA 1000\nDATA 77\ns\nLDAM 3\n") + EXITA},
      {"LDAP", std::string("LDAP s\nBR s\nDATA 1000\ns\n") + EXITA},
      {"PFIX-BRZ", std::string("BRZ hop\nDATA 1000\n") + EXIT3 + std::string(40, ' ') + "\nLDAC 0\nLDAC 0\nLDAC 0\nLDAC 0\nLDAC 0\nLDAC 0\nLDAC 0\nLDAC 0\nLDAC 0\nhop\n" + EXIT1}};
    for (auto &f : firsts) items.insert(items.begin(), Item{"first-instruction:" + f.first, f.second, true, {""}});
  }
  // stores into the word that is being executed, then runs on into the modified bytes (word 3 = LDAM 2; STAM 3; LDAC 7; LDBM 1 is overwritten by word 2 = same with LDAC 9)
  items.insert(items.begin(), Item{"self-modifying", "BR start\nDATA 1000\nDATA 288957186\nstart\nLDAM 2\nSTAM 3\nLDAC 7\nLDBM 1\nSTAI 2\nLDAC 0\nOPR SVC\n", true, {""}});
  // system-call sequences: every sequence of <=2 (thorough: <=3) items over {write x1..x3 back to back, read x1..x3 back to back, copy the last read byte into the character slot,
  // write with one instruction between the SVCs}; back-to-back SVCs keep the syscall strobe high on consecutive clocks
  {
    std::vector<std::string> it = {"LDAC 1\nOPR SVC\n", "LDAC 1\nOPR SVC\nOPR SVC\n", "LDAC 1\nOPR SVC\nOPR SVC\nOPR SVC\n", "LDAC 2\nOPR SVC\n", "LDAC 2\nOPR SVC\nOPR SVC\n", "LDAC 2\nOPR SVC\nOPR SVC\nOPR SVC\n",
                                   "LDAM 1\nLDAI 1\nLDBM 1\nSTAI 2\n", "LDAC 1\nOPR SVC\nLDAC 1\nOPR SVC\n"};
    int maxLen = th ? 3 : 2;
    std::vector<std::vector<int>> seqs = {{}};
    size_t from = 0;
    for (int L = 1; L <= maxLen; L++) { size_t to = seqs.size(); for (size_t k = from; k < to; k++) for (int a = 0; a < (int)it.size(); a++) { auto q = seqs[k]; q.push_back(a); seqs.push_back(q); } from = to; }
    for (auto &q : seqs) {
      // sp = 1000; sp[2] = 'a' (character / exit value slot), sp[3] = 0 (stream); exit with the character slot as the exit value
      std::string src = "BR start\nDATA 1000\nstart\nLDAC 97\nLDBM 1\nSTAI 2\nLDAC 0\nLDBM 1\nSTAI 3\n";
      for (int a : q) src += it[a];
      src += "LDAC 0\nOPR SVC\nOPR SVC\n";
      items.insert(items.begin(), Item{"syscall-sequences", src, true, {"", "xyz", std::string("\x80\x00z", 3)}});
    }
  }
  size_t shipped = items.size();
  uint64_t want = th ? 120000 : 6000;
  // the hand-parametrised families (scoping, recursion, strings, names, output streams, large frames, long bodies) completely
  for (size_t f = 0; f < C.fams.size(); f++) if (C.fams[f].name.rfind("F4-F7", 0) == 0) for (uint64_t k = 0; k < C.fams[f].count; k++) { std::string sh; items.push_back({C.fams[f].name, C.fams[f].make(k, &sh), false, {}}); }
  for (uint64_t i = 0; i < C.total; i += std::max<uint64_t>(1, C.total / want)) { std::string sh, fam; std::string s = C.make(i, &sh, &fam); items.push_back({fam, s, false, {}}); }
  if (!ctx.replayPath.empty()) {
    JV v; if (!jparse(slurp(ctx.replayPath), v)) harness_fail("cannot parse replay");
    const JV *c = v.get("case"); if (c && c->get("case")) c = c->get("case"); if (!c) harness_fail("no case");
    std::string dir = ctx.scratch + "/replay"; mkdir(dir.c_str(), 0755); if (chdir(dir.c_str())) harness_fail("chdir");
    xrun::Runner R; R.init(dir);
    std::string src = c->str("source"), input = unhex(c->str("input_hex"));
    bool ok = c->str("tool") == "hexasm" ? ad::assemble_text(src, ad::A_FILE, R.binPath).kind == 0 : R.compile(src).status == 0;
    if (!ok) { printf("replay: source does not build\n"); return 0; }
    auto hs = R.run(input, 5000000); auto tbr = tbrun::run(R.binPath, input, 0, 0, 5000000);
    printf("hexsim: status %d out %s consumed %zu | hextb: sig %d kind %d status %d out %s consumed %u\n", hs.rv, hexs(hs.out).c_str(), hs.consumed, tbr.sig, tbr.kind, tbr.status, hexs(std::string(tbr.out, std::min<size_t>(tbr.outLen, sizeof tbr.out))).c_str(), tbr.consumed);
    bool same = !tbr.sig && !tbr.kind && tbr.status == hs.rv && tbr.consumed == hs.consumed && std::string(tbr.out, std::min<size_t>(tbr.outLen, sizeof tbr.out)) == hs.out.substr(0, sizeof tbr.out);
    R.cleanup();
    if (!same) { printf("VIOLATION property=C06 replay=%s\n", ctx.replayPath.c_str()); return 1; }
    return 0;
  }
  phase(ctx, std::to_string(items.size()) + " programs (" + std::to_string(shipped) + " shipped)");
  const char *cli = getenv("HEX_CLI");
  uint64_t procEvery = th ? 40 : 25;
  auto body = [&](uint64_t b, uint64_t e, const std::set<uint64_t> &skip, Stats &st, volatile uint64_t *cur) {
    std::string dir = ctx.scratch + "/w" + std::to_string(b); mkdir(dir.c_str(), 0755); if (chdir(dir.c_str())) exit(3);
    xrun::Runner R; R.init(dir);
    for (uint64_t i = b; i < e; i++) {
      *cur = i; if (skip.count(i)) continue;
      if (ctx.expired()) { st.add("programs_skipped_deadline"); continue; }
      Item &it = items[i];
      std::vector<std::string> inputs = it.inputs;
      if (inputs.empty()) { auto S = xrun::searchInputs(it.src, 2); // every answer to the first read (all 7 byte values and end of input); for the second read the values at the edges of the byte range
        for (auto &c : S.kept) { const std::string &w = c.input; bool edge = w.size() < 2 || (unsigned char)w.back() >= 0x80 || w.back() == 0; if (edge) inputs.push_back(w); }
        if (inputs.size() > 40) inputs.resize(40); }
      st.add("programs");
      if (inputs.empty()) { st.add("programs_without_defined_case"); continue; }
      bool ok = it.isAsm ? ad::assemble_text(it.src, ad::A_FILE, R.binPath).kind == 0 : R.compile(it.src).status == 0;
      if (!ok) { st.add("not_built"); continue; }
      std::string file = slurp(R.binPath);
      for (size_t k = 0; k < inputs.size(); k++) {
        const std::string &input = inputs[k];
        std::string why; uint64_t steps = inDomain(file, input, th ? 400000000ull : 3000000ull, why);
        if (!steps) { st.add("pairs_outside_domain"); st.add("outside_domain:" + why.substr(0, why.find(" word") == std::string::npos ? 40 : why.find(" word"))); if (why.find("reads") == 0 && false) st.sample(Obj().kv("dropped_pair", why).kv("source", it.src.substr(0, 1500)).str(), 8); continue; }
        auto viol = [&](const std::string &level, const std::string &kind, const std::string &what) {
          st.violation(level + ":" + kind, i, Obj().kv("family", it.family).kv("tool", it.isAsm ? "hexasm" : "xcmp").kv("source", it.src.substr(0, 6000)).kv("input_hex", hexs(input.substr(0, 64))).kv("what", what).str());
        };
        auto hs = R.run(input, steps + 1000);
        auto tb = tbrun::run(R.binPath, input, 0, 0, steps + 1000, 120, dir + "/tb");
        std::string hfiles[8]; R.collectFiles(hfiles);
        st.add("pairs_in_process"); st.add("rtl_clocks", steps);
        std::string tout(tb.out, std::min<size_t>(tb.outLen, sizeof tb.out));
        if (tb.sig) viol("in-process", "testbench-died", "hextb run ended with " + std::to_string(tb.sig));
        else if (tb.kind) viol("in-process", "exception", std::string("hextb threw: ") + tb.err);
        else if (hs.kind) viol("in-process", "hexsim-exception", hs.err);
        else if (tb.outLen != hs.out.size() || tout != hs.out.substr(0, sizeof tb.out)) viol("in-process", "output", "stdout after the banner: hextb '" + hexs(tout.substr(0, 48)) + "' hexsim '" + hexs(hs.out.substr(0, 48)) + "'");
        else if (tb.status != hs.rv) viol("in-process", "status", "exit value hextb " + std::to_string(tb.status) + " hexsim " + std::to_string(hs.rv));
        else if (tb.consumed != hs.consumed) viol("in-process", "consumption", "input consumed hextb " + std::to_string(tb.consumed) + " hexsim " + std::to_string(hs.consumed));
        else for (int n = 0; n < 8; n++) {
          std::string tf(tb.files[n], std::min<size_t>(tb.fileLen[n], sizeof tb.files[n]));
          if (tb.fileLen[n] != hfiles[n].size() || tf != hfiles[n].substr(0, sizeof tb.files[n])) { viol("in-process", "file-stream", "simout" + std::to_string(n) + ": hextb '" + hexs(tf) + "' hexsim '" + hexs(hfiles[n].substr(0, 64)) + "'"); break; }
          if (!hfiles[n].empty()) st.add("pairs_with_file_streams");
        }
        st.outcome(mix(fnv(hs.out), hs.rv));
        if (input.size()) st.add("pairs_with_input");
        // process level on a stride of the pairs
        if (cli && k == 0 && (i % procEvery == 0 || i < shipped) && steps < 20000000) {
          // the program's input followed by bytes it never reads: what is left on the descriptor afterwards must be the same for both executables
          std::string pin = input + std::string("unread tail: 0123456789 0123456789 0123456789\n");
          { std::string why2; uint64_t st2 = inDomain(file, pin, th ? 400000000ull : 3000000ull, why2); if (!st2 || st2 >= 20000000) pin = input; else st.add("pairs_process_level_with_unread_tail"); }   // the longer input must itself be inside the domain
          spit(dir + "/in.txt", pin);
          std::string o1, o2;
          // each executable writes its simout<n> files into the working directory: collect (and remove) them after each run
          auto takeFiles = [&](std::string f[8]) { for (int n = 0; n < 8; n++) { std::string p = dir + "/simout" + std::to_string(n); f[n] = slurp(p); unlink(p.c_str()); } };
          std::string pf1[8], pf2[8];
          long c1 = -1, c2 = -1;
          int r1 = runProc({std::string(cli) + "/hextb", R.binPath, "+verilator+seed+" + std::to_string(1 + i % 1000)}, dir, dir + "/in.txt", o1, 300, &c1);
          takeFiles(pf1);
          int r2 = runProc({std::string(cli) + "/hexsim", R.binPath}, dir, dir + "/in.txt", o2, 300, &c2);
          takeFiles(pf2);
          st.add("pairs_process_level");
          size_t nl = o1.find('\n'); std::string after = nl == std::string::npos ? o1 : o1.substr(nl + 1);
          if (r1 < 0 || r2 < 0) viol("process", "abnormal", "hextb status " + std::to_string(r1) + " hexsim status " + std::to_string(r2));
          else if (after != o2) viol("process", "output", "stdout after the banner differs: hextb '" + hexs(after.substr(0, 48)) + "' hexsim '" + hexs(o2.substr(0, 48)) + "'");
          else if (r1 != r2) viol("process", "status", "exit status hextb " + std::to_string(r1) + " hexsim " + std::to_string(r2));
          else if (c1 != c2) viol("process", "consumption", "of " + std::to_string(pin.size()) + " bytes on standard input (a regular file) hextb leaves the descriptor at " + std::to_string(c1) + ", hexsim at " + std::to_string(c2));
          else for (int n = 0; n < 8; n++) if (pf1[n] != pf2[n]) { viol("process", "file-stream", "simout" + std::to_string(n) + ": hextb " + std::to_string(pf1[n].size()) + " bytes '" + hexs(pf1[n].substr(0, 48)) + "' hexsim " + std::to_string(pf2[n].size()) + " bytes '" + hexs(pf2[n].substr(0, 48)) + "'"); break; }
          unlink((dir + "/in.txt").c_str()); unlink((dir + "/stdout.txt").c_str());
          std::string rm = "rm -rf '" + dir + "/logs'"; if (system(rm.c_str())) {}
        }
      }
      if (i % 997 == 0) st.sample(Obj().kv("family", it.family).kv("source", it.src.substr(0, 300)).kv("inputs", (uint64_t)inputs.size()).str(), 5);
    }
    R.cleanup(); if (chdir(ctx.scratch.c_str())) exit(3);
    std::string rm = "rm -rf '" + dir + "'"; if (system(rm.c_str())) {}
  };
  auto r = run_chunks(ctx, "c06", items.size(), std::min<uint64_t>(items.size(), 1024), body, [&](uint64_t i) { return Obj().kv("family", items[i].family).kv("source", items[i].src.substr(0, 6000)).str(); }, 600);
  rep.st.merge(r.stats);
  if (!r.complete || rep.st.c["programs_skipped_deadline"]) rep.caps.push_back("deadline: " + std::to_string(rep.st.c["programs_skipped_deadline"]) + " programs not explored");
  auto &c = rep.st.c;
  rep.evaluations = c["pairs_in_process"] + c["pairs_process_level"]; rep.states = c["rtl_clocks"]; rep.transitions = c["rtl_clocks"]; rep.validated = rep.evaluations;
  rep.nontrivial = c["pairs_in_process"];
  rep.rule = "binaries: the shipped X and assembly programs and a stride sample of the C01 corpus compiled by the working tree's xcmp/hexasm; inputs: the defined answers of the read-branching search (depth 2); "
             "pairs whose reference run depends on words it has not written (three backgrounds must agree) are dropped; each pair runs on hextb.cpp's own load()/run() (fresh process, Verilated model) and on hexsim::Processor, a stride also on "
             "the two built executables with a Verilator seed; stdout after the banner, exit status and input consumption must be equal; pairs are distinct by construction";
  rep.bounds.kv("programs", (uint64_t)items.size()).kv("process_level_stride", procEvery);
  rep.assumptions = {"in-process runs start from the all-zero power-on state and process runs use one seed per pair: the power-on axis belongs to C13", "input consumption at process level is observed through programs that echo what they read"};
  rep.trusted = {"src/adapters/tb.cpp (includes hextb.cpp)", "src/common/refisa.hpp (domain filter)"};
  return rep.finish();
}
