// C10 — hexasm accepts or cleanly rejects every input (sanitizer build of the adapter; fork-isolated; fill-pattern differential).
#define ROBUST_DEFINE_NEW 1
#include <memory>
#include "common/robust.hpp"
#include "common/mc.hpp"
#include <algorithm>
#include "common/asmgen.hpp"
#include "common/listing.hpp"
#include "adapters/tools.hpp"
#include <sys/wait.h>

using namespace mc;
static Ctx ctx;

struct Outcome { int kind; std::string err, bin, listing, tokens; bool fileExists; bool operator==(const Outcome &o) const { return kind == o.kind && err == o.err && bin == o.bin && listing == o.listing && tokens == o.tokens && fileExists == o.fileExists; } };

static std::string g_out;
static Outcome runOnce(const std::string &src, unsigned char fill) {
  robust::g_fill = fill; robust::g_fill_on = true;
  robust::dirtyStack(fill);
  unlink(g_out.c_str());
  ad::AResult r = ad::assemble_text(src, ad::A_TOKENS | ad::A_BIN | ad::A_LISTING | ad::A_FILE, g_out);
  robust::g_fill_on = false;
  Outcome o{r.kind, r.err, r.bin, r.listing, r.tokens, access(g_out.c_str(), F_OK) == 0};
  return o;
}
static std::string srcClass(const std::string &s) {
  bool onlyWs = true, hasHigh = false;
  bool inComment = false;
  for (unsigned char c : s) { if (c >= 0x80) hasHigh = true; if (inComment) { if (c == '\n') inComment = false; continue; } if (c == '#') { inComment = true; continue; } if (!isspace(c)) onlyWs = false; }
  if (onlyWs) return "blank-or-comment-only";
  if (hasHigh) return "non-ascii";
  return "other";
}
static void judge(const std::string &src, uint64_t order, const std::string &family, Stats &st, const std::string &desc = "") {
  Outcome a = runOnce(src, 0x00), b = runOnce(src, 0xA5);
  st.add("inputs");
  auto rep = [&](const std::string &sig, const std::string &what) {
    Obj o; o.kv("family", family).kv("what", what).kv("source_hex", hexs(src.substr(0, 4096)));
    if (src.size() <= 400) o.kv("source", src);
    if (!desc.empty()) o.kv("edit", desc);
    st.violation(sig, order, o.str());
  };
  if (!(a == b)) { rep("fill-dependent:" + srcClass(src), "outcome differs between heap/stack fill 00 and A5 (kind " + std::to_string(a.kind) + "/" + std::to_string(b.kind) + ", err '" + a.err + "'/'" + b.err + "')"); return; }
  if (a.kind == 0) {
    st.add("accepted");
    if (!a.fileExists) rep("accepted-without-output", "accepted but no output file written");
    st.outcome(fnv(a.bin));
  } else {
    st.add("rejected");
    if (a.kind == 3) rep("non-std-exception", "threw something that is not a std::exception");
    if (a.err.empty()) rep("empty-diagnostic", "rejected with an empty diagnostic");
    if (a.fileExists) rep("rejected-but-emitted", "rejected (" + a.err + ") but an output file exists");
    st.outcome(fnv(a.err));
  }
}


// ---- process level: the built executable itself (argument parsing, the catch site in main, exit status, stderr, output file)
static int runTool(const std::vector<std::string> &argv, const std::string &cwd, std::string &err, double timeout) {
  std::string errPath = cwd + "/stderr.txt";
  pid_t p = fork();
  if (p == 0) {
    if (chdir(cwd.c_str())) _exit(126);
    std::vector<char *> a; for (auto &s : argv) a.push_back((char *)s.c_str()); a.push_back(nullptr);
    if (!freopen("/dev/null", "rb", stdin) || !freopen("/dev/null", "wb", stdout) || !freopen(errPath.c_str(), "wb", stderr)) _exit(126);
    execv(a[0], a.data()); _exit(127);
  }
  double t0 = now(); int status = 0;
  while (true) { pid_t r = waitpid(p, &status, WNOHANG); if (r == p) break; if (now() - t0 > timeout) { kill(p, SIGKILL); waitpid(p, &status, 0); return -999; } usleep(300); }
  err = slurp(errPath);
  return WIFEXITED(status) ? WEXITSTATUS(status) : -WTERMSIG(status);
}
// runs `tool src [-o out | listingOpt]` and judges the contract; returns "" or what is wrong
static std::string judgeProcess(const std::string &tool, const std::string &src, const std::string &dir, const std::string &listingOpt, std::string &kind) {
  spit(dir + "/in.src", src); unlink((dir + "/out.bin").c_str()); unlink((dir + "/a.out").c_str());
  std::string err; std::vector<std::string> av = {tool, "in.src"};
  if (listingOpt.empty()) { av.push_back("-o"); av.push_back("out.bin"); } else av.push_back(listingOpt);
  int rc = runTool(av, dir, err, 60);
  bool emitted = access((dir + "/out.bin").c_str(), F_OK) == 0 || access((dir + "/a.out").c_str(), F_OK) == 0;
  if (rc == -999) { kind = "hang"; return "did not terminate within 60 s"; }
  if (rc < 0) { kind = "crash"; return "terminated by signal " + std::to_string(-rc) + " (stderr: " + err.substr(0, 120) + ")"; }
  if (rc == 0 && listingOpt.empty() && !emitted) { kind = "contract"; return "exit status 0 but no binary"; }
  if (rc != 0 && emitted) { kind = "contract"; return "non-zero status but a binary was left behind"; }
  if (rc != 0 && err.find("Error") == std::string::npos) { kind = "contract"; return "non-zero status " + std::to_string(rc) + " without a diagnostic (stderr: " + err.substr(0, 120) + ")"; }
  if (rc == 0 && err.find("Error") != std::string::npos) { kind = "contract"; return "diagnostic printed but exit status 0"; }
  return "";
}

static std::vector<std::string> tokenizeAsm(const std::string &src) {
  std::vector<std::string> t; std::string cur; bool c = false;
  for (char ch : src) { if (c) { if (ch == '\n') c = false; continue; } if (ch == '#') { c = true; if (!cur.empty()) { t.push_back(cur); cur.clear(); } continue; } if (isspace((unsigned char)ch)) { if (!cur.empty()) { t.push_back(cur); cur.clear(); } continue; } cur += ch; }
  if (!cur.empty()) t.push_back(cur);
  return t;
}

int main(int argc, char **argv) {
  ctx = parse_args("C10", argc, argv, 600, 5400);
  g_out = ctx.scratch + "/c10.out";
  Report rep; rep.ctx = ctx;
  if (!ctx.replayPath.empty()) {
    JV v; if (!jparse(slurp(ctx.replayPath), v)) harness_fail("cannot parse replay");
    const JV *c = v.get("case"); if (c && c->get("case")) c = c->get("case");
    if (!c) harness_fail("no case");
    std::string src = unhex(c->str("source_hex"));
    g_out = ctx.scratch + "/replay.out";
    Stats st; int rc = run_isolated([&] { Stats s2; judge(src, 0, "replay", s2); if (!s2.viols.empty()) _exit(7); }, 60);
    printf("replay: %s\n", rc == 0 ? "clean" : ("effect rc=" + std::to_string(rc)).c_str());
    if (rc != 0) { printf("VIOLATION property=C10 replay=%s\n", ctx.replayPath.c_str()); return 1; }
    return 0;
  }
  const std::vector<std::string> LEX = {"NUMBER:5", "-", "DATA", "PROC", "FUNC", "LDAM", "LDBM", "STAM", "LDAC", "LDBC", "LDAP", "LDAI", "LDBI", "STAI", "BR", "BRZ", "BRN", "BRB", "SVC", "ADD", "SUB", "OPR", "lab"};
  std::vector<std::string> lexemes; for (auto &l : LEX) lexemes.push_back(l.rfind("NUMBER:", 0) == 0 ? l.substr(7) : l);
  struct Fam { std::string name; std::function<uint64_t()> count; std::function<std::string(uint64_t, std::string *)> make; uint64_t chunks; };
  std::vector<Fam> fams;
  // (a) all byte strings of length <= 2
  std::vector<std::string> bytes; for (int i = 0; i < 256; i++) bytes.push_back(std::string(1, (char)i));
  auto B2 = std::make_shared<robust::Strings>(bytes, 2);
  fams.push_back({"bytes<=2", [=] { return B2->total; }, [=](uint64_t i, std::string *) { return B2->make(i); }, 64});
  // (a') all strings over a lexical alphabet
  std::vector<std::string> lexAlpha = {"A", "B", "R", "x", "0", "1", "9", "#", "-", "_", " ", "\n", "\t", "\x80", "\xff", ".", "D", "%", "$", "{"};
  auto L = std::make_shared<robust::Strings>(lexAlpha, ctx.thorough() ? 5 : 4);
  fams.push_back({"lexical<=" + std::to_string(L->maxLen), [=] { return L->total; }, [=](uint64_t i, std::string *) { return L->make(i); }, 256});
  // (b) all token strings
  auto T = std::make_shared<robust::Strings>(lexemes, ctx.thorough() ? 5 : 4, "\n");
  fams.push_back({"tokens<=" + std::to_string(T->maxLen), [=] { return T->total; }, [=](uint64_t i, std::string *) { return T->make(i); }, 256});
  // (c) single-token edits of the shipped files
  std::vector<std::string> repl = lexemes; repl.push_back("99999999999"); repl.push_back("4294967296"); repl.push_back("start"); repl.push_back("2147483648");
  for (const char *n : {"exit0.S", "exit255.S", "hello.S", "hello_procedure.S", "xhexb.S"}) {
    auto toks = tokenizeAsm(slurp(ctx.repo + "/tests/asm/" + n));
    if (toks.empty()) continue;
    bool big = toks.size() > 2000;
    auto E = std::make_shared<robust::Edits>(toks, repl, " ", big && !ctx.thorough());
    if (big && !ctx.thorough()) { /* deletions only, every 4th position */ }
    uint64_t stride = (big && !ctx.thorough()) ? 8 : (big ? 3 : 1);
    fams.push_back({std::string("edits:") + n, [=] { return (E->total() + stride - 1) / stride; }, [=](uint64_t i, std::string *d) { return E->make(i * stride, d); }, 128});
  }
  // (d) hand-picked hostile shapes
  auto S = std::make_shared<std::vector<std::string>>();
  for (int d : {1, 9, 10, 11, 19, 20, 21, 40, 400}) for (const char *pre : {"LDAC ", "LDAC -", "DATA ", "DATA -", "BR ", "BR -"}) S->push_back(std::string(pre) + std::string(d, '9') + "\n");
  for (const char *kw : {"BRx", "LDAC_", "DATA1", "OPRx", "PROCx", "brb", "ldac", "Svc"}) { S->push_back(std::string(kw) + "\nBR " + kw + "\n"); S->push_back(std::string("LDAC ") + kw + "\n" + kw + "\nDATA 1\n"); }
  S->push_back("a\na\nBR a\n"); S->push_back("a\nPROC a\nFUNC a\nBR a\n"); S->push_back("BR undefined\n"); S->push_back("LDAC undefined\n");
  S->push_back("LDAC 1 2\n"); S->push_back("OPR\n"); S->push_back("OPR 3\n"); S->push_back("OPR lab\n"); S->push_back("PROC\n"); S->push_back("FUNC 5\n"); S->push_back("PROC -\n");
  S->push_back("LDAC 0\na\nLDAC a\n"); S->push_back("LDAC 0\nLDAC 0\na\nLDAM a\n"); S->push_back(std::string(5000, 'a') + "\nBR " + std::string(5000, 'a') + "\n");
  S->push_back(std::string(3000, '\n')); S->push_back(std::string(3000, '#')); S->push_back("# only a comment"); S->push_back("# c\n"); S->push_back(""); S->push_back(" "); S->push_back("\n");
  S->push_back("DATA\n"); S->push_back("DATA lab\n"); S->push_back("-\n"); S->push_back("- 5\n"); S->push_back("LDAC - 5\n"); S->push_back("LDAC -\n"); S->push_back("LDAC --5\n");
  { std::string many; for (int i = 0; i < 2000; i++) many += "l" + std::to_string(i) + "\nBR l" + std::to_string((i * 7) % 2000) + "\n"; S->push_back(many); }
  fams.push_back({"hostile", [=] { return (uint64_t)S->size(); }, [=](uint64_t i, std::string *) { return (*S)[i]; }, 16});
  // (d2) sizes: every construct that has a size, around each power of 256 a one- or two-byte field could hold
  {
    auto Z = std::make_shared<std::vector<std::string>>();
    std::vector<int> sizes = {31, 32, 33, 63, 64, 65, 127, 128, 129, 254, 255, 256, 257, 258, 300, 511, 512, 513, 1000, 1023, 1024, 1025, 4095, 4096, 4097};
    if (ctx.thorough()) for (int z : {8192, 16384, 32767, 32768, 65535, 65536, 65537}) sizes.push_back(z);
    auto rep_ = [](int n, const std::function<std::string(int)> &f) { std::string r; for (int i = 0; i < n; i++) r += f(i); return r; };
    for (int n : sizes) {
      std::string nm; for (int i = 0; i < n; i++) nm += (char)('a' + i % 26);
      Z->push_back("BR " + nm + "\n" + nm + "\nLDAC 1\n");
      Z->push_back("PROC " + nm + "\nLDAC 1\nFUNC f" + nm + "\nBR " + nm + "\n");
      Z->push_back("BR " + nm + "\n");                                   // unknown label of that length in the diagnostic
      Z->push_back("LDAC " + std::string(n, '0') + "7\n");
      Z->push_back("LDAC -" + std::string(n, '9') + "\n");
      Z->push_back("DATA " + std::string(n, '9') + "\n");
      Z->push_back("#" + nm + "\nLDAC 1\n");
      Z->push_back("LDAC" + std::string(n, ' ') + "1" + std::string(n, '\n') + "OPR" + std::string(n, '\t') + "SVC\n");
      Z->push_back("LDAC 1 " + nm + " $\n");                             // error at the end of a long line
      if (n <= 40000) Z->push_back(rep_(n, [](int i) { return "l" + std::to_string(i) + "\n"; }) + "BR l0\n");    // run of labels (layout scans a run once per label: 65537 labels take 30 s in a release build and minutes under ASan; slow, not stuck)
      Z->push_back(rep_(n, [](int i) { return "PROC p" + std::to_string(i) + "\nLDAC " + std::to_string(i) + "\n"; }) + "BR p0\n");   // debug symbols
      Z->push_back(rep_(n, [](int i) { return "DATA " + std::to_string(i * 2654435761u) + "\n"; }));
      Z->push_back("BR end\n" + rep_(n, [](int i) { return std::string("LDAC 0\n"); }) + "end\nLDAC 0\n");          // forward reference across n bytes
      Z->push_back("top\n" + rep_(n, [](int i) { return std::string("LDAC 0\n"); }) + "BR top\n");                   // backward reference across n bytes
      Z->push_back(rep_(n, [n](int i) { return "BR l" + std::to_string(n - 1 - i) + "\nl" + std::to_string(i) + "\n"; }));   // crossing references
      Z->push_back(rep_(n, [](int i) { return std::string("OPR SVC\n"); }));
    }
    fams.push_back({"sizes", [=] { return (uint64_t)Z->size(); }, [=](uint64_t i, std::string *) { return (*Z)[i]; }, 64});
  }
  // (e) layout termination on the C05 corpus (text path, smallest gap set)
  auto C = std::make_shared<asmgen::Corpus>(); C->build(3, 2, {0, 1, 3, 14, 15, 16, 254, 255}, true);
  fams.push_back({"layout-corpus", [=] { return C->total; }, [=](uint64_t i, std::string *) { return asmgen::render(C->make(i)); }, 64});

  // smallest families first: the hand lists and size sweeps are never the ones a deadline cuts off
  std::stable_sort(fams.begin(), fams.end(), [](const Fam &a, const Fam &b) { return a.count() < b.count(); });
  for (auto &f : fams) {
    if (ctx.expired()) { rep.caps.push_back("family " + f.name + " not started (deadline)"); continue; }
    uint64_t n = f.count();
    phase(ctx, "family " + f.name + ": " + std::to_string(n) + " inputs");
    auto body = [&](uint64_t b, uint64_t e, const std::set<uint64_t> &skip, Stats &st, volatile uint64_t *cur) {
      g_out = ctx.scratch + "/c10." + std::to_string(getpid()) + ".out";
      for (uint64_t i = b; i < e; i++) {
        *cur = i; if (skip.count(i)) continue;
        std::string d; std::string src = f.make(i, &d);
        judge(src, i, f.name, st, d);
        if (i % 50021 == 7) st.sample(Obj().kv("family", f.name).kv("index", i).kv("source_hex", hexs(src.substr(0, 80))).kv("source", src.substr(0, 80)).str(), 6);
      }
      unlink(g_out.c_str());
    };
    auto describe = [&](uint64_t i) { std::string d; std::string src = f.make(i, &d); Obj o; o.kv("family", f.name).kv("source_hex", hexs(src.substr(0, 4096))); if (src.size() <= 400) o.kv("source", src); if (!d.empty()) o.kv("edit", d); o.kv("class", srcClass(src)); return o.str(); };
    // crash signatures are refined by the input class so that different crashing shapes are reported separately
    auto r = run_chunks(ctx, "f", n, f.chunks, body, describe, 30.0, (size_t)1 << 44);
    // re-key crash violations by class
    Stats merged;
    for (auto &p : r.stats.viols) {
      std::string sig = p.first;
      if (sig.rfind("crash:", 0) == 0 || sig == "hang") { JV v; std::string cls = "other"; if (jparse(p.second.json, v)) { const JV *c = v.get("case"); if (c) cls = c->str("class", "other"); } sig += ":" + cls; }
      auto &dst = merged.viols[sig]; uint64_t cnt = dst.count + p.second.count; if (dst.count == 0 || p.second.order < dst.order) dst = p.second; dst.sig = sig; dst.count = cnt;
    }
    r.stats.viols = merged.viols;
    rep.st.merge(r.stats);
    rep.st.add("family:" + f.name, r.complete ? n : 0);
    if (!r.complete) rep.caps.push_back("family " + f.name + ": incomplete (chunks " + std::to_string(r.chunksDone) + "/" + std::to_string(r.chunksTotal) + ")");
  }
  // ---- the built hexasm executable: hostile list, lexical strings <= 2, token strings <= 2, in binary and --instrs mode
  if (getenv("HEX_CLI") && !ctx.expired()) {
    std::string tool = std::string(getenv("HEX_CLI")) + "/hexasm";
    std::vector<std::string> inputs = *S;
    robust::Strings L2(lexAlpha, 2), T2(lexemes, 2, "\n");
    for (uint64_t i = 0; i < L2.total; i++) inputs.push_back(L2.make(i));
    for (uint64_t i = 0; i < T2.total; i++) inputs.push_back(T2.make(i));
    for (const char *x : {"LDAC 100 % 3\n", "LDAC %d\n", "BR %s\n", "%n%n%n\n", "LDAC 1 %\n", "x%1$s\nBR x%1$s\n", "BR lab%\n"}) inputs.push_back(x);
    phase(ctx, "process level: " + std::to_string(inputs.size()) + " inputs x 2 modes through the built hexasm");
    auto body = [&](uint64_t b, uint64_t e, const std::set<uint64_t> &skip, Stats &st, volatile uint64_t *cur) {
      std::string dir = ctx.scratch + "/pl" + std::to_string(b); mkdir(dir.c_str(), 0755);
      for (uint64_t i = b; i < e; i++) {
        *cur = i; if (skip.count(i)) continue;
        for (const char *mode : {"", "--instrs"}) {
          std::string kind, w = judgeProcess(tool, inputs[i], dir, mode, kind);
          st.add("process_runs");
          if (!w.empty()) st.violation("process:" + kind + ":" + srcClass(inputs[i]), i, Obj().kv("family", "process").kv("mode", mode).kv("what", w).kv("source_hex", hexs(inputs[i].substr(0, 4096))).kv("source", inputs[i].substr(0, 200)).str());
        }
      }
      std::string rm = "rm -rf '" + dir + "'"; if (system(rm.c_str())) {}
    };
    auto r = run_chunks(ctx, "proc", inputs.size(), 64, body, [&](uint64_t i) { return Obj().kv("family", "process").kv("source_hex", hexs(inputs[i].substr(0, 4096))).str(); }, 120, (size_t)1 << 44);
    rep.st.merge(r.stats);
    if (!r.complete) rep.caps.push_back("process level: incomplete");
  }
  auto &c = rep.st.c;
  rep.evaluations = c["inputs"] * 2 + c["process_runs"]; rep.states = c["inputs"]; rep.transitions = c["inputs"] * 2; rep.validated = c["inputs"];
  rep.nontrivial = c["accepted"] + (uint64_t)rep.st.outcomes.size();
  rep.rule = "inputs: every byte string of length <=2, every string of length <=4 (thorough 5) over a 20-symbol lexical alphabet, every token string of length <=4 (5) over hexasm's 23 source tokens, "
             "every single-token edit (delete/duplicate/swap/replace by each token or hostile literal) of the shipped .S files, a hostile hand list, and the C05 corpus for layout termination; each input is run "
             "under two heap/stack fill patterns in an ASan+UBSan build; distinct by construction; distinct_nontrivial counts accepted inputs plus distinct diagnostics";
  rep.bounds.kv("token_string_length", (uint64_t)T->maxLen).kv("lexical_string_length", (uint64_t)L->maxLen);
  rep.assumptions = {"crash = signal or sanitizer abort in the forked worker; hang = no progress for 30 s on one input", "fill patterns 00 and A5 applied through operator new and a 192 KB stack scribble"};
  rep.trusted = {"ASan/UBSan of g++ 12", "src/adapters/tools.cpp"};
  return rep.finish();
}
