// C08 — generated code stays inside its memory regions and balances the stack.
// Every defined (program,input) of the C01 corpus plus recursion-depth and array-size sweeps: the emitted image executes on RefISA with access monitors.
#include "common/mc.hpp"
#include "common/xgen.hpp"
#include "common/xrun.hpp"

using namespace mc;
using refisa::Machine; using refisa::Env;
static Ctx ctx;

struct Mon { std::string what, kind; };
// Executes the image on RefISA with monitors. Returns "" or the first violation. `steps` out.
static std::string monitored(const std::string &file, const std::string &input, uint64_t maxSteps, uint64_t &steps, std::string &kind, Stats &st, const refx::Outcome *ref) {
  auto img = refisa::parseImage(file);
  if (!img.wellFormed) { kind = "malformed-image"; return "emitted file is not a well-formed image"; }
  static thread_local Machine m; static thread_local std::vector<uint8_t> fetched, stored; static thread_local std::vector<uint32_t> touched;
  if (fetched.empty()) { fetched.assign(refisa::MEM_WORDS, 0); stored.assign(refisa::MEM_WORDS, 0); }
  // reset machine state cheaply: undo previous writes
  m.undoTo(0); m.logWrites = true; m.logAccess = true; m.alog.clear();
  for (auto a : touched) { fetched[a] = 0; stored[a] = 0; } touched.clear();
  for (size_t i = 0; i + 3 < img.body.size(); i += 4) m.store(i / 4, (uint8_t)img.body[i] | ((uint8_t)img.body[i + 1] << 8) | ((uint8_t)img.body[i + 2] << 16) | ((uint32_t)(uint8_t)img.body[i + 3] << 24));
  m.alog.clear();
  m.pc = m.areg = m.breg = m.oreg = 0;
  Env env; env.in = input;
  uint32_t sp0 = m.mem[1], imageWords = img.nwords;
  uint32_t startByte = 0, stub = 0; int phase = 0;  // 0: before the entry BR executed, 1: before LDAP executed, 2: running
  steps = 0;
  while (!env.exited && steps < maxSteps) {
    auto cls = m.classify(false);
    if (cls != refisa::DEFINED) {
      kind = cls == refisa::OUT_OF_RANGE ? "access-outside-memory" : "undefined-instruction";
      uint8_t b = m.pc < refisa::MEM_BYTES ? m.fetchByte(m.pc) : 0;
      char buf[200]; snprintf(buf, sizeof buf, "step %llu at pc %u: instruction byte 0x%02x with areg=0x%x breg=0x%x oreg=0x%x sp=%u %s", (unsigned long long)steps, m.pc, b, m.areg, m.breg, m.oreg, m.mem[1],
                               cls == refisa::OUT_OF_RANGE ? "addresses a word outside the 200000-word memory" : "is not a defined instruction");
      return buf;
    }
    bool atStub = phase == 2 && m.pc == stub && m.oreg == 0;
    if (atStub && m.mem[1] != sp0) { kind = "stack-not-balanced"; return "control reached the exit stub with sp=" + std::to_string(m.mem[1]) + ", load-time value " + std::to_string(sp0); }
    if (atStub) st.add("returns_from_main_checked");
    size_t a0 = m.alog.size();
    uint8_t b = m.step(env); steps++;
    uint8_t op = b >> 4;
    if (phase == 0 && op != 0xE && op != 0xF) { if (op != 0x9) { kind = "entry-shape"; return "image does not start with a branch"; } startByte = m.pc; phase = 1; }
    else if (phase == 1 && op != 0xE && op != 0xF) { if (op != 0x5) { kind = "entry-shape"; return "entry code does not start with LDAP"; } stub = m.areg; phase = 2; }
    for (size_t i = a0; i < m.alog.size(); i++) {
      auto ac = m.alog[i];
      if (ac.kind == 0) { if (!fetched[ac.addr]) { fetched[ac.addr] = 1; touched.push_back(ac.addr); } if (stored[ac.addr] & 2) { kind = "store-hits-code"; return "instruction fetched from word " + std::to_string(ac.addr) + " which the program stored to"; } }
      else if (ac.kind == 2) {
        if (!(stored[ac.addr] & 2)) { stored[ac.addr] |= 2; touched.push_back(ac.addr); }
        if (fetched[ac.addr]) { kind = "store-hits-code"; return "store to word " + std::to_string(ac.addr) + " from which instructions were fetched (pc " + std::to_string(m.pc) + ")"; }
        if (m.mem[1] < imageWords + 64 && phase == 2) { kind = "stack-budget-exceeded"; return "stack pointer reached the image"; }
        bool dataWord = ac.addr >= 1 && ac.addr < startByte / 4;
        if (!dataWord && ac.addr < imageWords) { kind = "store-into-image"; return "store to image word " + std::to_string(ac.addr) + " outside the data words [1," + std::to_string(startByte / 4) + ")"; }
        if (ac.addr == 1 && m.mem[1] < imageWords + 64) { kind = "stack-budget-exceeded"; return "stack pointer reached the image: the program needs more stack than the machine has (outside the property's domain)"; }
        if (ac.addr == 1 && m.mem[1] > sp0) { kind = "stack-pointer-above-start"; return "stack pointer set to " + std::to_string(m.mem[1]) + " above its load-time value " + std::to_string(sp0); }
      }
    }
    m.alog.clear();
  }
  if (!env.exited) { kind = "no-exit"; return "image did not exit within " + std::to_string(maxSteps) + " steps"; }
  if (ref && (env.out != ref->out || (int32_t)env.exitValue != ref->exitValue)) { kind = "differs-from-reference"; return "monitored run differs from the reference semantics (see C01)"; }
  st.add("stores_checked", touched.size());
  return "";
}

static void checkProgram(xrun::Runner &R, const std::string &src, const std::string &family, uint64_t order, Stats &st, uint64_t stepLimit = 200000, int depthLimit = 2000, bool verbose = false) {
  auto S = xrun::searchInputs(src, 2, stepLimit, depthLimit);
  st.add("programs");
  if (S.kept.empty()) { st.add("programs_without_defined_case"); return; }
  auto cr = R.compile(src);
  if (cr.status != 0) { st.add("not_compiled"); return; }
  std::string file = slurp(R.binPath);
  for (auto &c : S.kept) {
    uint64_t steps = 0; std::string kind;
    std::string w = monitored(file, c.input, c.oc.steps * 80 + 50000, steps, kind, st, &c.oc);
    st.add("executions"); st.add("monitored_steps", steps);
    if (verbose) printf("input %s: %llu steps: %s\n", hexs(c.input).c_str(), (unsigned long long)steps, w.empty() ? "all accesses inside their regions, stack balanced" : w.c_str());
    if (kind == "stack-budget-exceeded") { st.add("dropped_stack_budget_exceeded"); continue; }
    if (!w.empty()) { st.violation(kind + ":" + family.substr(0, family.find(':', 3) == std::string::npos ? family.size() : family.find(':', 3)), order, Obj().kv("family", family).kv("source", src).kv("input_hex", hexs(c.input)).kv("what", w).str()); break; }
    st.maxv("call_depth", c.oc.maxDepth);
  }
  st.add("programs_kept");
}

int main(int argc, char **argv) {
  ctx = parse_args("C08", argc, argv, 400, 1700);
  Report rep; rep.ctx = ctx;
  if (!ctx.replayPath.empty()) {
    JV v; if (!jparse(slurp(ctx.replayPath), v)) harness_fail("cannot parse replay");
    const JV *c = v.get("case"); if (c && c->get("case")) c = c->get("case"); if (!c) harness_fail("no case");
    std::string dir = ctx.scratch + "/replay"; mkdir(dir.c_str(), 0755);
    int rc = run_isolated([&] { xrun::Runner R; R.init(dir); Stats st; checkProgram(R, c->str("source"), "replay", 0, st, 50000000, 100000, true); R.cleanup(); if (!st.viols.empty()) _exit(7); }, 300, (size_t)8 << 30);
    if (rc) { printf("VIOLATION property=C08 replay=%s\n", ctx.replayPath.c_str()); return 1; }
    printf("replay: no violation\n"); return 0;
  }
  xgen::Corpus C; C.build(ctx.thorough());
  // sweeps: recursion depth and array sizes
  std::vector<std::pair<std::string, std::string>> sweeps;
  {
    std::vector<int> depths = {1, 2, 3, 10, 100, 1000, 5000}; if (ctx.thorough()) { depths.push_back(10000); depths.push_back(20000); depths.push_back(30000); }
    for (int d : depths) {
      std::string D = std::to_string(d);
      sweeps.push_back({"sweep:rec-func", "func dn(val n) is if n = 0 then return 0 else return dn(n - 1) + 1\nproc main() is 0(dn(" + D + "))\n"});
      sweeps.push_back({"sweep:rec-proc", "var d;\nproc down(val n) is var k; { k := n; if n = 0 then skip else down(n - 1); d := d + 1 }\nproc main() is { d := 0; down(" + D + "); 0(d) }\n"});
      sweeps.push_back({"sweep:rec-frames", "func dp(val n, val a1, val a2) is var t; var u; { t := a1 + 1; u := a2 + 1; if n = 0 then return t - u else return dp(n - 1, t, u) + (t - (u + 0)) }\nproc main() is 0(dp(" + D + ", 3, 4))\n"});
      sweeps.push_back({"sweep:rec-array-arg", "array s[4];\nfunc w(array q, val n) is if n = 0 then return q[1] else return w(q, n - 1)\nproc main() is { s[1] := 9; 0(w(s, " + D + ")) }\n"});
    }
    for (long n : {1L, 2L, 3L, 100L, 65535L, 65536L, 100000L, 150000L}) {
      std::string N = std::to_string(n), L = std::to_string(n - 1);
      sweeps.push_back({"sweep:array-size", "array big[" + N + "];\nproc main() is { big[0] := 5; big[" + L + "] := 7; 0(big[0] + big[" + L + "]) }\n"});
      sweeps.push_back({"sweep:array-size-two", "array a1[" + N + "]; array a2[3];\nfunc rd(array q, val i) is return q[i]\nproc main() is { a1[" + L + "] := 7; a2[0] := 1; a2[2] := 2; 0((rd(a1, " + L + ") + rd(a2, 0)) + rd(a2, 2)) }\n"});
    }
    for (const char *p : {"proc main() is skip\n", "proc main() is stop\n", "proc p() is stop\nproc main() is p()\n", "proc p() is skip\nproc main() is { p(); p() }\n", "func f() is return 1\nproc main() is if f() = 1 then skip else stop\n"}) sweeps.push_back({"sweep:return-from-main", p});
  }
  uint64_t total = C.total + sweeps.size();
  phase(ctx, "corpus " + std::to_string(C.total) + " programs + " + std::to_string(sweeps.size()) + " sweep programs");
  auto get = [&](uint64_t i, std::string &fam) { if (i < sweeps.size()) { fam = sweeps[i].first; return sweeps[i].second; } std::string shape; return C.make(i - sweeps.size(), &shape, &fam); };
  auto body = [&](uint64_t b, uint64_t e, const std::set<uint64_t> &skip, Stats &st, volatile uint64_t *cur) {
    std::string dir = ctx.scratch + "/w" + std::to_string(b); mkdir(dir.c_str(), 0755);
    xrun::Runner R; R.init(dir);
    for (uint64_t i = b; i < e; i++) {
      *cur = i; if (skip.count(i)) continue;
      if (ctx.expired()) { st.add("programs_skipped_deadline"); continue; }
      std::string fam; std::string src = get(i, fam);
      bool sweep = i < sweeps.size();
      checkProgram(R, src, fam, i, st, sweep ? 5000000 : 200000, sweep ? 40000 : 2000);
      if (sweep) st.add("sweep_programs");
      if (i % 9973 == 3) st.sample(Obj().kv("family", fam).kv("source", src).str(), 6);
    }
    R.cleanup(); rmdir(dir.c_str());
  };
  auto r = run_chunks(ctx, "c08", total, 2048, body, [&](uint64_t i) { std::string fam; std::string src = get(i, fam); return Obj().kv("family", fam).kv("source", src).str(); }, 120, (size_t)8 << 30);
  rep.st.merge(r.stats);
  if (!r.complete || rep.st.c["programs_skipped_deadline"]) rep.caps.push_back("deadline: " + std::to_string(rep.st.c["programs_skipped_deadline"]) + " programs not explored");
  auto &c = rep.st.c;
  rep.evaluations = c["executions"]; rep.states = c["monitored_steps"]; rep.transitions = c["monitored_steps"]; rep.validated = c["executions"];
  rep.nontrivial = c["programs_kept"];
  rep.rule = "programs of the C01 corpus (every defined (program,input) pair, inputs to depth 2) plus sweeps of recursion depth (1..5000, thorough ..30000 frames, four frame shapes) and array sizes "
             "(1..150000 words, accesses to first and last component); the emitted image runs on RefISA with monitors on every fetch, load and store: inside the 200000-word memory, no store to a fetched word, "
             "stores only to the image's data words [1,start) or above the image, mem[1] never above its load-time value and equal to it whenever control reaches the exit stub; distinct by construction";
  rep.bounds.kv("corpus_programs", C.total).kv("sweep_programs", (uint64_t)sweeps.size());
  rep.assumptions = {"RefISA executes the image as hexsim does (C02)", "the exit stub is the address the entry LDAP loads; the data words are those between word 1 and the target of the entry branch"};
  rep.trusted = {"src/common/refisa.hpp monitors", "src/common/refx.hpp (domain filter)"};
  return rep.finish();
}
