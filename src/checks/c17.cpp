// C17 — listings agree with the binary they describe: assembly corpus part shares c05.cpp
#define HEXMC_C17 1
#include "c05.cpp"
