// C02 — hexsim executes every instruction exactly as the Hex ISA defines.
// Families: grid (single-step state grid), svc (system-call grid), dfs (lazy-byte sequence search from reset, env answers branched),
// runs (shipped programs in lock-step), loader (image files).
#include <dirent.h>
#include "common/mc.hpp"
#include "common/refisa.hpp"
#include "common/simh.hpp"
#include "adapters/tools.hpp"

using namespace mc;
using refisa::Machine; using refisa::Env;

static Ctx ctx;

static std::vector<uint32_t> cornerSet(bool thorough) {
  bool full = true;
  std::vector<uint32_t> k = {0, 1, 2, 3, 0xF, 0x10, 199998, 199999, 200000, 0x7FFFFFFF, 0x80000000u, 0xFFFFFFF0u, 0xFFFFFFFFu,
                             0xFFFFFFFEu, 0xFFFFFF00u, 0x30D3F /*199999*/, 0x11, 0xFF, 0x100, 0xFFF, 0x1000, 799996, 799999, 800000};
  if (full) {
    for (int b = 4; b < 32; b++) { k.push_back(1u << b); k.push_back((1u << b) - 1); k.push_back(~(1u << b)); }
    for (uint32_t v : {4u, 5u, 7u, 8u, 0x20u, 0x12345678u, 0x87654321u, 0xFFFF0000u, 0x0000FFFFu, 0x000C3500u}) k.push_back(v);
    if (thorough) {
      for (int b = 4; b < 32; b++) { k.push_back((1u << b) + 1); k.push_back(~(1u << b) - 1); k.push_back(0u - (1u << b)); }
      for (uint32_t v = 0xFFFFFFF0u; v != 0; v++) k.push_back(v);
      for (uint32_t v = 0; v < 16; v++) { k.push_back(v); k.push_back(199984 + v); }
    }
  } else {
    for (int b : {4, 8, 15, 16, 17, 20, 21, 24, 30, 31}) { k.push_back(1u << b); k.push_back((1u << b) - 1); }
    k.push_back(~(1u << 31)); k.push_back(~(1u << 4));
  }
  std::sort(k.begin(), k.end()); k.erase(std::unique(k.begin(), k.end()), k.end());
  return k;
}
static const uint32_t PCS[] = {0, 1, 2, 3, 400000, 400001, 400002, 400003, 799996, 799997, 799998, 799999};
static inline uint32_t pattern(uint32_t i) { return (i * 2654435761u) ^ 0x5bd1e995u ^ (i << 7); }

struct Pair {
  simh::Sim sim; Machine ref; Env env;
  void init(bool patterned) {
    sim.calibrate();
    sim.create();
    for (uint32_t i = 0; i < refisa::MEM_WORDS; i++) { uint32_t v = patterned ? pattern(i) : 0; ref.mem[i] = v; sim.v.mem[i] = v; }
    ref.logWrites = true;
  }
  void setRegs(uint32_t pc, uint32_t a, uint32_t b, uint32_t o) {
    ref.pc = pc; ref.areg = a; ref.breg = b; ref.oreg = o;
    *sim.v.pc = pc; *sim.v.areg = a; *sim.v.breg = b; *sim.v.oreg = o;
  }
  void poke(uint32_t addr, uint32_t v) { ref.mem[addr] = v; sim.v.mem[addr] = v; }
  std::string regDiff() {
    if (ref.pc == *sim.v.pc && ref.areg == *sim.v.areg && ref.breg == *sim.v.breg && ref.oreg == *sim.v.oreg) return "";
    return "ref{" + simh::regs(ref.pc, ref.areg, ref.breg, ref.oreg) + "} hexsim{" + simh::regs(*sim.v.pc, *sim.v.areg, *sim.v.breg, *sim.v.oreg) + "}";
  }
  int firstMemDiff() {
    if (!memcmp(sim.v.mem, ref.mem.data(), refisa::MEM_WORDS * 4)) return -1;
    for (uint32_t i = 0; i < refisa::MEM_WORDS; i++) if (sim.v.mem[i] != ref.mem[i]) return (int)i;
    return -1;
  }
};

// ---------------------------------------------------------------------------------------------- grid
struct GridCase { uint32_t byte, pc, o, a, b; };
static std::string gridJson(const GridCase &c) {
  return Obj().kv("family", "grid").kv("byte", c.byte).kv("pc", c.pc).kv("oreg", c.o).kv("areg", c.a).kv("breg", c.b).str();
}
// executes one planted step; returns "" if equal, else description. `full` => full memory compare.
static std::string gridExec(Pair &P, const GridCase &c, bool full, Stats &st, bool count) {
  uint32_t w = c.pc >> 2, lane = c.pc & 3;
  uint32_t savedWord = P.ref.mem[w];
  uint32_t word = 0;
  static const uint8_t X[4] = {0x00, 0xFF, 0x5A, 0xA5};
  for (uint32_t l = 0; l < 4; l++) { uint32_t by = (l == lane) ? c.byte : ((c.byte ^ X[(l - lane) & 3]) & 0xFF); word |= by << (8 * l); }
  P.poke(w, word);
  P.setRegs(c.pc, c.a, c.b, c.o);
  std::string res;
  auto cls = P.ref.classify(false);
  if (cls != refisa::DEFINED || (c.byte == 0xD3 && (c.o | 3) == 3)) {  // SVC is covered by the svc family
    if (count) st.add(cls == refisa::OUT_OF_RANGE ? "grid_skipped_out_of_range" : (cls == refisa::DEFINED ? "grid_skipped_svc" : "grid_skipped_undefined"));
    P.poke(w, savedWord);
    return "";
  }
  size_t mark = P.ref.wlog.size();
  P.ref.step(P.env);
  int kind = 0; std::string err;
  P.sim.step(&kind, &err);
  if (kind != 0) res = "hexsim threw: " + err;
  if (res.empty()) res = P.regDiff();
  if (res.empty()) {
    for (size_t i = mark; i < P.ref.wlog.size(); i++) {
      uint32_t ad = P.ref.wlog[i].first;
      if (P.sim.v.mem[ad] != P.ref.mem[ad]) { char b[128]; snprintf(b, sizeof b, "mem[%u]: ref 0x%08x hexsim 0x%08x", ad, P.ref.mem[ad], P.sim.v.mem[ad]); res = b; }
    }
  }
  if (res.empty() && !*P.sim.v.running) res = "hexsim stopped running on a non-SVC instruction";
  if (res.empty() && !P.sim.ob.data.empty()) { res = "hexsim produced output on a non-SVC instruction"; }
  if (res.empty() && full) { int d = P.firstMemDiff(); if (d >= 0) { char b[128]; snprintf(b, sizeof b, "stray write: mem[%d] ref 0x%08x hexsim 0x%08x", d, P.ref.mem[d], P.sim.v.mem[d]); res = b; } }
  if (count) { st.add("grid_steps"); if (P.ref.wlog.size() > mark) st.add("grid_steps_with_store"); }
  // restore
  for (size_t i = P.ref.wlog.size(); i > mark; i--) { uint32_t ad = P.ref.wlog[i - 1].first; P.sim.v.mem[ad] = P.ref.wlog[i - 1].second; }
  P.ref.undoTo(mark);
  if (!res.empty() || full) {  // resync after a failure
    if (P.firstMemDiff() >= 0) memcpy(P.sim.v.mem, P.ref.mem.data(), refisa::MEM_WORDS * 4);
  }
  P.sim.ob.data.clear();
  P.poke(w, savedWord);
  return res;
}

static std::string sigOf(uint32_t byte, const std::string &what) {
  std::string m = refisa::MNEM[byte >> 4];
  std::string kind = what.find("stray") != std::string::npos ? "stray-write" : what.find("mem[") == 0 ? "store" : what.find("threw") != std::string::npos ? "exception" : "regs";
  return "step:" + m + ":" + kind;
}

// ---------------------------------------------------------------------------------------------- svc grid
struct SvcCase { uint32_t pc, o, a, sp, val, stream; int input; };  // input: -1 = end of input, else byte
static const uint32_t SVC_SP[] = {2, 1000, 199996};
static const uint32_t SVC_VAL[] = {0x41, 0x141, 0xFFFFFF80u, 0, 0xFF, 0x7FFFFF0A};
static const uint32_t SVC_STREAM[] = {0, 1, 255, 256, 511, 512, 767, 0x700, 0x7FF, 0x800, 0x900, 0x12345, 0x7FFFFF00};
static const int SVC_IN[] = {-1, 0x00, 0x41, 0x7F, 0x80, 0xFF};

// ---------------------------------------------------------------------------------------------- dfs
static const uint8_t SIGMA[] = {0x00, 0x01, 0x11, 0x21, 0x22, 0x30, 0x31, 0x3F, 0x41, 0x4F, 0x50, 0x5F, 0x60, 0x61, 0x71, 0x80, 0x81, 0x90, 0x91, 0x9F,
                                0xA1, 0xB1, 0xD0, 0xD1, 0xD2, 0xD3, 0xE0, 0xE1, 0xEF, 0xF0, 0xFF, 0xFE};
static const int NSIGMA = sizeof(SIGMA);
static const int DFS_IN[] = {-1, 0x00, 0x41, 0x80, 0xFF};

struct Dfs {
  Pair &P; Stats &st; int maxDepth;
  std::vector<uint8_t> chosen;  // per byte address (small window) 0/1
  std::vector<uint8_t> trace;   // chosen bytes in order
  std::string inputSoFar;
  std::set<uint64_t> seen;
  uint64_t states = 0, transitions = 0, leaves = 0, maxd = 0;
  static const uint32_t WIN = 4096;  // lazily chosen code bytes live below this byte address
  Dfs(Pair &P, Stats &st, int d) : P(P), st(st), maxDepth(d), chosen(WIN, 0) {}

  uint64_t stateHash() {
    uint64_t h = mix(mix(mix(mix(1, P.ref.pc), P.ref.areg), P.ref.breg), P.ref.oreg);
    // memory = write log relative to zero + chosen bytes: hash the touched low window and the write log targets
    for (auto &w : P.ref.wlog) h = mix(h, ((uint64_t)w.first << 32) | P.ref.mem[w.first]);
    for (uint32_t i = 0; i < 64; i++) h = mix(h, P.ref.mem[i]);
    h = mix(h, fnv(P.env.out)); h = mix(h, P.env.inPos); h = mix(h, fnv(inputSoFar));
    for (int i = 0; i < 8; i++) h = mix(h, fnv(P.env.files[i]));
    h = mix(h, fnv(chosen.data(), 256));
    return h;
  }
  void fail(const std::string &what, uint8_t byte) {
    Obj o; o.kv("family", "dfs").kv("bytes_hex", hexs(std::string(trace.begin(), trace.end()))).kv("input_hex", hexs(inputSoFar)).kv("what", what);
    st.violation("dfs:" + sigOf(byte, what), trace.size() * 1000 + byte, o.str());
  }
  // explore from the current state with `depth` instructions already executed
  void go(int depth) {
    if (depth > (int)maxd) maxd = depth;
    if (P.env.exited || depth >= maxDepth) { leaves++; return; }
    if (P.ref.pc >= WIN) { leaves++; st.add("dfs_left_window"); return; }
    if (!chosen[P.ref.pc]) {
      // lazy byte choice
      uint32_t pc = P.ref.pc, w = pc >> 2, lane = pc & 3;
      for (int i = 0; i < NSIGMA; i++) {
        uint32_t old = P.ref.mem[w];
        uint32_t nw = (old & ~(0xFFu << (8 * lane))) | ((uint32_t)SIGMA[i] << (8 * lane));
        P.poke(w, nw); chosen[pc] = 1; trace.push_back(SIGMA[i]);
        transitions++;
        exec(depth);
        trace.pop_back(); chosen[pc] = 0; P.poke(w, old);
      }
    } else exec(depth);
  }
  void exec(int depth) {
    auto cls = P.ref.classify(false);
    if (cls != refisa::DEFINED) { st.add(cls == refisa::OUT_OF_RANGE ? "dfs_skipped_out_of_range" : "dfs_skipped_undefined"); leaves++; return; }
    uint8_t b = P.ref.fetchByte(P.ref.pc);
    bool isRead = (b == 0xD3) && ((P.ref.oreg | 3) == 3) && P.ref.areg == 2;
    if (isRead && P.env.inPos >= P.env.in.size()) {
      // environment answer: branch over next input byte / end of input
      for (int a : DFS_IN) {
        std::string savedIn = P.env.in, savedSoFar = inputSoFar;
        if (a >= 0) { P.env.in += (char)a; inputSoFar += (char)a; } else inputSoFar += "<eof>";
        P.sim.setInput(a >= 0 ? std::string(1, (char)a) : std::string());
        transitions++;
        one(depth, b);
        P.env.in = savedIn; inputSoFar = savedSoFar;
      }
    } else one(depth, b);
  }
  void one(int depth, uint8_t b) {
    // snapshot
    uint32_t pc = P.ref.pc, a = P.ref.areg, bb = P.ref.breg, o = P.ref.oreg;
    size_t mark = P.ref.wlog.size(); size_t outLen = P.env.out.size(), inPos = P.env.inPos;
    size_t flen[8]; for (int i = 0; i < 8; i++) flen[i] = P.env.files[i].size();
    P.setRegs(pc, a, bb, o);
    size_t simOut0 = P.sim.ob.data.size(); size_t simIn0 = P.sim.ib.consumed();
    P.ref.step(P.env);
    int kind = 0; std::string err;
    int rv = P.sim.step(&kind, &err);
    transitions++;
    st.add("dfs_steps");
    std::string res;
    if (kind != 0) res = "hexsim threw: " + err;
    if (res.empty()) res = P.regDiff();
    if (res.empty()) for (size_t i = mark; i < P.ref.wlog.size(); i++) { uint32_t ad = P.ref.wlog[i].first; if (P.sim.v.mem[ad] != P.ref.mem[ad]) res = "mem[" + std::to_string(ad) + "] differs"; }
    if (res.empty() && (!*P.sim.v.running) != P.env.exited) res = "running flag differs";
    if (res.empty() && P.env.exited && (uint32_t)rv != P.env.exitValue) res = "exit value differs";
    if (res.empty() && P.sim.ob.data.substr(simOut0) != P.env.out.substr(outLen)) res = "stdout differs";
    if (res.empty() && (P.sim.ib.consumed() - simIn0) != (P.env.inPos - inPos)) res = "input consumption differs";
    // writes to simout files are checked at the end of the family (files are flushed on destruction)
    if (!res.empty()) { fail(res, b); memcpy(P.sim.v.mem, P.ref.mem.data(), refisa::MEM_WORDS * 4); }
    else {
      // stores to the code window count as choosing those bytes
      std::vector<uint32_t> marked;
      for (size_t i = mark; i < P.ref.wlog.size(); i++) { uint32_t ad = P.ref.wlog[i].first; if (ad * 4 < WIN) for (int l = 0; l < 4; l++) if (!chosen[ad * 4 + l]) { chosen[ad * 4 + l] = 1; marked.push_back(ad * 4 + l); } }
      uint64_t h = stateHash();
      h = mix(h, (uint64_t)(maxDepth - depth));  // remaining budget is part of the state (bounded search)
      if (seen.insert(h).second) { states++; go(depth + 1); } else st.add("dfs_pruned_revisit");
      for (auto m : marked) chosen[m] = 0;
    }
    // undo
    for (size_t i = P.ref.wlog.size(); i > mark; i--) { uint32_t ad = P.ref.wlog[i - 1].first; P.sim.v.mem[ad] = P.ref.wlog[i - 1].second; }
    P.ref.undoTo(mark);
    P.ref.pc = pc; P.ref.areg = a; P.ref.breg = bb; P.ref.oreg = o;
    P.env.out.resize(outLen); P.env.inPos = inPos; P.env.exited = false;
    for (int i = 0; i < 8; i++) P.env.files[i].resize(flen[i]);
    P.sim.ob.data.resize(simOut0);
    *P.sim.v.running = true;
  }
};

// ---------------------------------------------------------------------------------------------- whole runs
static std::string runLockstep(const std::string &file, const std::string &input, uint64_t maxSteps, Stats &st, uint64_t &stepsOut, const std::string &scratch) {
  auto img = refisa::parseImage(file);
  std::string path = scratch + "/run.bin";
  spit(path, file);
  simh::Sim sim; sim.calibrate(); sim.create();
  ad::sim_load(sim.v, path.c_str());
  sim.setInput(input);
  Machine ref; Env env; env.in = input;
  ref.loadWords(img.body);
  if (memcmp(sim.v.mem, ref.mem.data(), refisa::MEM_WORDS * 4)) return "memory after load differs from the file's words";
  uint64_t n = 0;
  while (!env.exited && n < maxSteps) {
    auto cls = ref.classify(false);
    if (cls != refisa::DEFINED) { st.add("runs_stopped_undefined_or_oor"); break; }
    ref.step(env);
    int kind; std::string err;
    int rv = sim.step(&kind, &err);
    n++;
    if (kind) return "hexsim threw at step " + std::to_string(n) + ": " + err;
    if (ref.pc != *sim.v.pc || ref.areg != *sim.v.areg || ref.breg != *sim.v.breg || ref.oreg != *sim.v.oreg)
      return "registers differ after step " + std::to_string(n) + " ref{" + simh::regs(ref.pc, ref.areg, ref.breg, ref.oreg) + "} hexsim{" + simh::regs(*sim.v.pc, *sim.v.areg, *sim.v.breg, *sim.v.oreg) + "}";
    if (env.exited && (uint32_t)rv != env.exitValue) return "exit value differs";
    if ((n & 0xFFFF) == 0 && memcmp(sim.v.mem, ref.mem.data(), refisa::MEM_WORDS * 4)) return "memory differs by step " + std::to_string(n);
  }
  stepsOut = n;
  if (memcmp(sim.v.mem, ref.mem.data(), refisa::MEM_WORDS * 4)) return "memory differs at end";
  if (sim.ob.data != env.out) return "stdout differs";
  if (sim.ib.consumed() != env.inPos) return "input consumption differs";
  return "";
}

static std::vector<std::string> listDir(const std::string &d, const std::string &suffix) {
  std::vector<std::string> r;
  DIR *dir = opendir(d.c_str()); if (!dir) return r;
  while (auto e = readdir(dir)) { std::string n = e->d_name; if (n.size() > suffix.size() && n.substr(n.size() - suffix.size()) == suffix) r.push_back(n); }
  closedir(dir); std::sort(r.begin(), r.end()); return r;
}

// ---------------------------------------------------------------------------------------------- main
int main(int argc, char **argv) {
  ctx = parse_args("C02", argc, argv, 300, 2400);
  if (chdir(ctx.scratch.c_str())) harness_fail("chdir scratch");
  Report rep; rep.ctx = ctx;
  auto K = cornerSet(ctx.thorough());
  uint64_t nk = K.size();
  const uint64_t NPC = sizeof(PCS) / sizeof(PCS[0]);

  // ---- replay
  if (!ctx.replayPath.empty()) {
    JV v; if (!jparse(slurp(ctx.replayPath), v)) harness_fail("cannot parse replay file");
    const JV *c = v.get("case"); if (c && c->get("case")) c = c->get("case");
    if (!c) harness_fail("no case in replay file");
    std::string fam = c->str("family");
    if (fam == "grid") {
      Pair P; P.init(true); Stats st;
      GridCase g{(uint32_t)c->num("byte"), (uint32_t)c->num("pc"), (uint32_t)c->num("oreg"), (uint32_t)c->num("areg"), (uint32_t)c->num("breg")};
      std::string r = gridExec(P, g, true, st, false);
      printf("replay grid %s => %s\n", gridJson(g).c_str(), r.empty() ? "agrees" : r.c_str());
      if (!r.empty()) { printf("VIOLATION property=C02 replay=%s\n", ctx.replayPath.c_str()); return 1; }
      return 0;
    }
    printf("replay of family '%s': re-run the tier; case: %s\n", fam.c_str(), slurp(ctx.replayPath).c_str());
    return 0;
  }

  // ---- self-test of the reference against the documented effect table (literal data, Appendix C)
  {
    Machine m; Env e;
    struct T { uint8_t byte; uint32_t a, b, o; uint32_t ea, eb, eo, epc; } tab[] = {
      {0x35, 9, 8, 0x10, 0x15, 8, 0, 1}, {0x45, 9, 8, 0x10, 9, 0x15, 0, 1}, {0xE5, 9, 8, 0x10, 9, 8, 0x150, 1},
      {0xF5, 9, 8, 0, 9, 8, 0xFFFFFF50u, 1}, {0xD1, 9, 8, 0, 17, 8, 0, 1}, {0xD2, 9, 8, 0, 1, 8, 0, 1}, {0xD0, 9, 8, 0, 9, 8, 0, 8},
      {0x95, 9, 8, 0, 9, 8, 0, 6}, {0xA5, 0, 8, 0, 0, 8, 0, 6}, {0xA5, 1, 8, 0, 1, 8, 0, 1}, {0xB5, 0x80000000u, 8, 0, 0x80000000u, 8, 0, 6},
      {0xB5, 0, 8, 0, 0, 8, 0, 1}, {0x55, 9, 8, 0, 6, 8, 0, 1}};
    for (auto &t : tab) {
      m.pc = 0; m.areg = t.a; m.breg = t.b; m.oreg = t.o; m.mem[0] = t.byte;
      m.step(e);
      if (m.areg != t.ea || m.breg != t.eb || m.oreg != t.eo || m.pc != t.epc) harness_fail("RefISA self-test: effect table mismatch for byte " + std::to_string(t.byte));
    }
  }

  // ================= family: grid
  phase(ctx, "grid");
  uint64_t gridUnits = 256 * NPC;  // (byte, pc) pairs
  uint64_t perUnit = nk * nk * nk;
  auto gridBody = [&](uint64_t b, uint64_t e, const std::set<uint64_t> &skip, Stats &st, volatile uint64_t *cur) {
    Pair P; P.init(true);
    for (uint64_t u = b; u < e; u++) {
      *cur = u;
      if (skip.count(u)) continue;
      uint32_t byte = u / NPC, pc = PCS[u % NPC];
      uint64_t sinceFull = 0; std::vector<GridCase> batch;
      for (uint64_t io = 0; io < nk; io++) for (uint64_t ia = 0; ia < nk; ia++) for (uint64_t ib = 0; ib < nk; ib++) {
        GridCase c{byte, pc, K[io], K[ia], K[ib]};
        // instructions that ignore a register are enumerated once for it (first corner only)
        uint32_t op = byte >> 4;
        bool usesA = op == 2 || op == 6 || op == 8 || op == 0xA || op == 0xB || op == 0xD;
        bool usesB = op == 7 || op == 8 || op == 0xD;
        if ((!usesA && ia > 1) || (!usesB && ib > 1)) continue;
        std::string r = gridExec(P, c, false, st, true);
        if (!r.empty()) st.violation(sigOf(byte, r), (uint64_t)io * 1000000 + ia * 1000 + ib, Obj().raw("case", gridJson(c)).kv("what", r).str());
        batch.push_back(c);
        if (++sinceFull >= 8192) {
          if (P.firstMemDiff() >= 0) {
            memcpy(P.sim.v.mem, P.ref.mem.data(), refisa::MEM_WORDS * 4);
            for (auto &bc : batch) { std::string r2 = gridExec(P, bc, true, st, false); if (!r2.empty()) { st.violation(sigOf(byte, r2), 0, Obj().raw("case", gridJson(bc)).kv("what", r2).str()); break; } }
          }
          st.add("grid_full_memory_compares"); sinceFull = 0; batch.clear();
        }
      }
      if (P.firstMemDiff() >= 0) {
        memcpy(P.sim.v.mem, P.ref.mem.data(), refisa::MEM_WORDS * 4);
        bool named = false;
        for (auto &bc : batch) { std::string r2 = gridExec(P, bc, true, st, false); if (!r2.empty()) { st.violation(sigOf(byte, r2), 0, Obj().raw("case", gridJson(bc)).kv("what", r2).str()); named = true; break; } }
        if (!named) st.violation("step:stray-write:unattributed", 0, Obj().kv("family", "grid").kv("byte", byte).kv("pc", pc).str());
      }
      st.add("grid_full_memory_compares");
      if (u % 97 == 0) st.sample(gridJson(GridCase{byte, pc, K[u % nk], K[(u / 3) % nk], K[(u / 7) % nk]}), 3);
    }
  };
  auto gridDescribe = [&](uint64_t u) { return Obj().kv("family", "grid").kv("byte", (uint64_t)(u / NPC)).kv("pc", PCS[u % NPC]).str(); };
  RunResult g = run_chunks(ctx, "grid", gridUnits, 256, gridBody, gridDescribe, 120.0);
  rep.st.merge(g.stats);
  if (!g.complete) rep.caps.push_back("grid: deadline reached before all (byte,pc) units were explored");

  // ================= family: svc
  phase(ctx, "svc");
  {
    std::vector<SvcCase> cases;
    for (uint32_t pc : PCS) for (uint32_t o : {0u, 1u, 2u, 3u}) for (uint32_t a : {0u, 1u, 2u}) for (uint32_t sp : SVC_SP)
      for (uint32_t val : SVC_VAL) for (uint32_t s : SVC_STREAM) for (int in : SVC_IN) {
        if (a != 2 && in != SVC_IN[0]) continue;           // input only matters for READ
        if (a == 0 && s != SVC_STREAM[0]) continue;        // stream slot irrelevant for EXIT
        if (a == 2 && s >= 256) continue;                  // file input streams are outside this family
        cases.push_back({pc, o, a, sp, val, s, in});
      }
    auto svcJson = [&](const SvcCase &c) { return Obj().kv("family", "svc").kv("pc", c.pc).kv("oreg", c.o).kv("areg", c.a).kv("sp", c.sp).kv("value", c.val).kv("stream", c.stream).kv("input", c.input).str(); };
    auto body = [&](uint64_t b, uint64_t e, const std::set<uint64_t> &skip, Stats &st, volatile uint64_t *cur) {
      std::string dir = ctx.scratch + "/svc" + std::to_string(b); mkdir(dir.c_str(), 0755); if (chdir(dir.c_str())) exit(3);
      {
        Pair P; P.init(true);
        for (uint64_t i = b; i < e; i++) {
          *cur = i; if (skip.count(i)) continue;
          const SvcCase &c = cases[i];
          uint32_t w = c.pc >> 2, lane = c.pc & 3; uint32_t sw = P.ref.mem[w];
          P.poke(w, (sw & ~(0xFFu << (8 * lane))) | (0xD3u << (8 * lane)));
          uint32_t s1 = P.ref.mem[1], s2 = P.ref.mem[c.sp + 1], s3 = P.ref.mem[c.sp + 2], s4 = P.ref.mem[c.sp + 3];
          P.poke(1, c.sp);
          if (c.a == 2) { P.poke(c.sp + 2, c.stream); } else { P.poke(c.sp + 2, c.val); P.poke(c.sp + 3, c.stream); }
          // note: planting may overwrite the instruction word when sp slots alias it; re-plant the byte last
          P.poke(w, (P.ref.mem[w] & ~(0xFFu << (8 * lane))) | (0xD3u << (8 * lane)));
          P.setRegs(c.pc, c.a, 0x1234, c.o);
          P.env.in = c.input >= 0 ? std::string(1, (char)c.input) : ""; P.env.inPos = 0; P.env.out.clear(); P.env.exited = false;
          P.sim.setInput(P.env.in); P.sim.ob.data.clear();
          auto cls = P.ref.classify(false);
          std::string res;
          if (cls == refisa::DEFINED && P.ref.fetchByte(c.pc) == 0xD3 && P.ref.mem[1] == c.sp) {
            size_t mark = P.ref.wlog.size();
            P.ref.step(P.env);
            int kind; std::string err; int rv = P.sim.step(&kind, &err);
            st.add("svc_steps");
            if (kind) res = "hexsim threw: " + err;
            if (res.empty()) res = P.regDiff();
            if (res.empty()) for (size_t k = mark; k < P.ref.wlog.size(); k++) { uint32_t ad = P.ref.wlog[k].first; if (P.sim.v.mem[ad] != P.ref.mem[ad]) res = "mem[" + std::to_string(ad) + "] ref " + std::to_string(P.ref.mem[ad]) + " hexsim " + std::to_string(P.sim.v.mem[ad]); }
            if (res.empty() && (!*P.sim.v.running) != P.env.exited) res = "running flag differs";
            if (res.empty() && P.env.exited && (uint32_t)rv != P.env.exitValue) res = "exit value: ref " + std::to_string(P.env.exitValue) + " hexsim " + std::to_string(rv);
            if (res.empty() && P.sim.ob.data != P.env.out) res = "stdout differs: ref '" + hexs(P.env.out) + "' hexsim '" + hexs(P.sim.ob.data) + "'";
            if (res.empty() && P.sim.ib.consumed() != P.env.inPos) res = "input consumption: ref " + std::to_string(P.env.inPos) + " hexsim " + std::to_string(P.sim.ib.consumed());
            if (res.empty()) { int d = (i % 64 == 0) ? P.firstMemDiff() : -1; if (d >= 0) res = "stray write at mem[" + std::to_string(d) + "]"; }
            for (size_t k = P.ref.wlog.size(); k > mark; k--) P.sim.v.mem[P.ref.wlog[k - 1].first] = P.ref.wlog[k - 1].second;
            P.ref.undoTo(mark);
            st.outcome(mix(mix(c.a, P.env.out.size()), P.env.exitValue) ^ fnv(P.env.out));
          } else st.add("svc_skipped");
          if (!res.empty()) { st.violation(std::string("svc:") + (c.a == 0 ? "exit" : c.a == 1 ? "write" : "read") + ":" + (res.find("stdout") == 0 ? "stdout" : res.find("mem[") == 0 ? "store" : res.find("input") == 0 ? "consumption" : "other"), i, Obj().raw("case", svcJson(c)).kv("what", res).str()); memcpy(P.sim.v.mem, P.ref.mem.data(), refisa::MEM_WORDS * 4); }
          P.env.exited = false; *P.sim.v.running = true;
          P.poke(c.sp + 3, s4); P.poke(c.sp + 2, s3); P.poke(c.sp + 1, s2); P.poke(1, s1); P.poke(w, sw);
          if (i % 5000 == 0) st.sample(svcJson(c), 2);
        }
        // destroy the processor (flushes simout files), then compare file streams
        P.sim.destroy();
        for (int n = 0; n < 8; n++) {
          std::string got = slurp("simout" + std::to_string(n));
          if (got != P.env.files[n]) st.violation("svc:write:file-routing", b, Obj().kv("family", "svc").kv("file", n).kv("expected_hex", hexs(P.env.files[n].substr(0, 64))).kv("actual_hex", hexs(got.substr(0, 64))).kv("chunk_begin", b).kv("chunk_end", e).str());
          else if (!got.empty()) st.add("svc_file_streams_checked");
          unlink(("simout" + std::to_string(n)).c_str());
        }
      }
      if (chdir(ctx.scratch.c_str())) exit(3);
      rmdir(dir.c_str());
    };
    RunResult r = run_chunks(ctx, "svc", cases.size(), 64, body, [&](uint64_t i) { return svcJson(cases[i]); }, 60.0);
    rep.st.merge(r.stats);
    if (!r.complete) rep.caps.push_back("svc: deadline reached");
  }

  // ================= family: filein — READ from streams >= 256 is served from the file simin<(stream>>8)&7> in the working directory
  {
    phase(ctx, "filein");
    struct FI { uint32_t stream; std::string content; int reads; };
    std::vector<FI> cases;
    for (uint32_t s : {256u, 300u, 511u, 512u, 1024u, 0x700u, 0x7FFu, 0x800u, 0x10100u}) for (std::string c : {std::string(""), std::string("A"), std::string("\x80\xff\x00Z", 4), std::string("<missing>")}) for (int r : {1, 2, 5}) cases.push_back({s, c, r});
    auto body = [&](uint64_t b, uint64_t e, const std::set<uint64_t> &skip, Stats &st, volatile uint64_t *cur) {
      std::string dir = ctx.scratch + "/fi" + std::to_string(b); mkdir(dir.c_str(), 0755); if (chdir(dir.c_str())) exit(3);
      for (uint64_t i = b; i < e; i++) {
        *cur = i; if (skip.count(i)) continue;
        const FI &c = cases[i]; int ix = (c.stream >> 8) & 7;
        for (int n = 0; n < 8; n++) unlink(("simin" + std::to_string(n)).c_str());
        if (c.content != "<missing>") spit("simin" + std::to_string(ix), c.content);
        // program: sp = 1000; repeat { mem[sp+2] = stream; READ; areg = mem[sp+1]; accumulate into mem[50+k] }, then exit(last)
        Machine ref; Env env; env.fileInput = true; if (c.content != "<missing>") env.inFiles[ix] = c.content;
        simh::Sim sim; sim.calibrate(); sim.create();
        auto poke = [&](uint32_t a, uint32_t v) { ref.mem[a] = v; sim.v.mem[a] = v; };
        poke(1, 1000); poke(1002, c.stream);
        // code at byte 8: (LDAC 2; OPR SVC; LDAM 1001 -> needs prefixes) keep it simple: r times [LDAC 2; SVC], then LDBM 1; LDAI... use direct words
        std::string code; for (int k = 0; k < c.reads; k++) { code += "\x32\xD3"; }          // LDAC 2 ; OPR SVC
        code += "\xE3\xEE\x09";                                                         // PFIX 3; PFIX E; LDAM 9  => areg = mem[0x3E9 = 1001]
        code += "\xE3\xEE\x2A";                                                         // STAM 0x3EA = 1002  (exit value slot sp+2)
        code += "\x30\xD3";                                                              // LDAC 0 ; OPR SVC (exit)
        for (size_t k = 0; k < code.size(); k++) { uint32_t a = 2 + k / 4; uint32_t v = ref.mem[a]; v |= (uint32_t)(uint8_t)code[k] << (8 * (k % 4)); poke(a, v); }
        ref.pc = 8; *sim.v.pc = 8;
        std::string res; int steps = 0;
        while (!env.exited && steps < 100) {
          if (ref.classify(false) != refisa::DEFINED && ref.classify(false) != refisa::NEED_INPUT_STREAM) { res = "harness: program left the defined range"; break; }
          ref.step(env); int kind; std::string err; int rv = sim.step(&kind, &err); steps++;
          if (kind) { res = "hexsim threw: " + err; break; }
          if (ref.pc != *sim.v.pc || ref.areg != *sim.v.areg || ref.breg != *sim.v.breg || ref.oreg != *sim.v.oreg) { res = "registers differ after step " + std::to_string(steps); break; }
          if (ref.mem[1001] != sim.v.mem[1001]) { res = "byte read from simin" + std::to_string(ix) + ": reference " + std::to_string(ref.mem[1001]) + " hexsim " + std::to_string(sim.v.mem[1001]) + " (read " + std::to_string(steps / 2) + ")"; break; }
          if (env.exited && (uint32_t)rv != env.exitValue) { res = "exit value differs"; break; }
        }
        st.add("filein_cases"); st.add("filein_steps", steps);
        if (res.empty() && sim.ib.consumed() != 0) res = "standard input consumed by a read from a file stream";
        if (!res.empty()) st.violation("filein:read", i, Obj().kv("family", "filein").kv("stream", c.stream).kv("file_hex", hexs(c.content)).kv("reads", c.reads).kv("what", res).str());
      }
      for (int n = 0; n < 8; n++) unlink(("simin" + std::to_string(n)).c_str());
      if (chdir(ctx.scratch.c_str())) exit(3);
      rmdir(dir.c_str());
    };
    auto r = run_chunks(ctx, "filein", cases.size(), 16, body, [&](uint64_t i) { return Obj().kv("family", "filein").kv("stream", cases[i].stream).str(); }, 60);
    rep.st.merge(r.stats);
    if (!r.complete) rep.caps.push_back("filein: deadline");
  }

  // ================= family: whole (uninterrupted runs): every byte sequence of length <= L at address 0 is executed by ONE call of
  // Processor::run() for exactly as many instructions as the reference finds defined, and the final state is compared.  This is the
  // family that sees state a single call keeps across instructions (anything the step-by-step families reset by re-entering run()).
  {
    static const uint8_t W[] = {0xFF, 0xE0, 0xE1, 0x3F, 0x31, 0x30, 0x41, 0x20, 0x21, 0x22, 0x00, 0x01, 0x02, 0xD1, 0x80, 0x81, 0x91, 0xA1, 0x51, 0xD3};
    const int NW = sizeof(W); int L = ctx.thorough() ? 6 : 5;
    uint64_t total = 0, pw = 1; std::vector<uint64_t> startOf; for (int l = 1; l <= L; l++) { pw *= NW; startOf.push_back(total); total += pw; }
    phase(ctx, "whole: " + std::to_string(total) + " sequences");
    auto seqOf = [&](uint64_t idx) { int l = 1; while (l < L && idx >= startOf[l]) l++; uint64_t r = idx - startOf[l - 1]; std::string q(l, '\0'); for (int k = l - 1; k >= 0; k--) { q[k] = (char)W[r % NW]; r /= NW; } return q; };
    auto body = [&](uint64_t b, uint64_t e, const std::set<uint64_t> &skip, Stats &st, volatile uint64_t *cur) {
      std::string dir = ctx.scratch + "/wh" + std::to_string(b); mkdir(dir.c_str(), 0755); if (chdir(dir.c_str())) exit(3);
      {
        Pair P; P.sim.calibrateK(); P.init(false);
        for (uint64_t i = b; i < e; i++) {
          *cur = i; if (skip.count(i)) continue;
          if (ctx.expired()) { st.add("whole_skipped_deadline"); continue; }
          std::string q = seqOf(i);
          for (const char *input : {"", "A"}) {
            uint32_t words = (q.size() + 3) / 4;
            for (uint32_t w = 0; w < words; w++) { uint32_t v = 0; for (int l = 0; l < 4; l++) if (w * 4 + l < q.size()) v |= (uint32_t)(uint8_t)q[w * 4 + l] << (8 * l); P.poke(w, v); }
            P.setRegs(0, 0, 0, 0); P.env = Env(); P.env.in = input; P.sim.setInput(input); P.sim.ob.data.clear();
            size_t mark = P.ref.wlog.size(); size_t n = 0;
            while (n < 20 && !P.env.exited && P.ref.classify(false) == refisa::DEFINED) { P.ref.step(P.env); n++; }
            if (n == 0) { st.add("whole_skipped_first_step_undefined"); }
            else {
              int kind; std::string err; int rv = P.sim.runK(n, &kind, &err);
              st.add("whole_runs"); st.add("whole_steps", n);
              std::string res;
              if (kind) res = "hexsim threw: " + err;
              if (res.empty()) res = P.regDiff();
              if (res.empty()) for (size_t k = mark; k < P.ref.wlog.size(); k++) { uint32_t ad = P.ref.wlog[k].first; if (P.sim.v.mem[ad] != P.ref.mem[ad]) res = "mem[" + std::to_string(ad) + "] ref " + std::to_string(P.ref.mem[ad]) + " hexsim " + std::to_string(P.sim.v.mem[ad]); }
              if (res.empty() && P.env.exited && (uint32_t)rv != P.env.exitValue) res = "exit value differs";
              if (res.empty() && (!*P.sim.v.running) != P.env.exited) res = "running flag differs";
              if (res.empty() && P.sim.ob.data != P.env.out) res = "stdout differs";
              if (res.empty() && P.sim.ib.consumed() != P.env.inPos) res = "input consumption differs";
              if (!res.empty()) { st.violation("whole:" + std::string(res.find("mem[") == 0 ? "store" : res.find("threw") != std::string::npos ? "exception" : "state"), i, Obj().kv("family", "whole").kv("bytes_hex", hexs(q)).kv("input_hex", hexs(input)).kv("instructions", (uint64_t)n).kv("what", res + " after " + std::to_string(n) + " instructions executed by one call of run()").str()); memcpy(P.sim.v.mem, P.ref.mem.data(), refisa::MEM_WORDS * 4); }
              bool selfmod = false; for (size_t k = mark; k < P.ref.wlog.size(); k++) if (P.ref.wlog[k].first < words) selfmod = true;
              if (selfmod) st.add("whole_runs_storing_into_their_own_code");
            }
            for (size_t k = P.ref.wlog.size(); k > mark; k--) { uint32_t ad = P.ref.wlog[k - 1].first; P.sim.v.mem[ad] = P.ref.wlog[k - 1].second; }
            P.ref.undoTo(mark);
            for (uint32_t w = 0; w < words; w++) P.poke(w, 0);
          }
          if (i % 400009 == 0) st.sample(Obj().kv("family", "whole").kv("bytes_hex", hexs(q)).str(), 2);
        }
        if (P.firstMemDiff() >= 0) st.violation("whole:stray-write", b, Obj().kv("family", "whole").kv("chunk_begin", b).kv("what", "memory differs at the end of the chunk").str());
        P.sim.destroy();
        for (int n = 0; n < 8; n++) unlink(("simout" + std::to_string(n)).c_str());
      }
      if (chdir(ctx.scratch.c_str())) exit(3);
      rmdir(dir.c_str());
    };
    auto r = run_chunks(ctx, "whole", total, 512, body, [&](uint64_t i) { return Obj().kv("family", "whole").kv("bytes_hex", hexs(seqOf(i))).str(); }, 120);
    rep.st.merge(r.stats);
    if (!r.complete || rep.st.c["whole_skipped_deadline"]) rep.caps.push_back("whole: deadline");
    rep.bounds.kv("whole_sequence_length", L).kv("whole_alphabet", NW);
  }

  // ================= family: runs (shipped programs in lock-step) + loader
  phase(ctx, "runs");
  {
    struct Prog { std::string name, file, input; };
    std::vector<Prog> progs;
    for (auto &n : listDir(ctx.repo + "/tests/asm", ".S")) {
      if (n == "xhexb.S" && !ctx.thorough()) continue;
      auto r = ad::assemble_text(slurp(ctx.repo + "/tests/asm/" + n), ad::A_FILE, ctx.scratch + "/t.bin");
      if (r.kind == 0) progs.push_back({n, r.file, n == "xhexb.S" ? slurp(ctx.repo + "/tests/x/hello_putval.x") : ""}); else rep.st.add("runs_not_assembled");
    }
    for (auto &n : listDir(ctx.repo + "/tests/x", ".x")) {
      if (n == "xhexb.x" && !ctx.thorough()) continue;
      auto r = ad::xcompile(slurp(ctx.repo + "/tests/x/" + n), ad::X_BINARY, ctx.scratch + "/t.bin");
      if (r.status == 0) { std::string f = slurp(ctx.scratch + "/t.bin"); for (std::string in : {std::string(""), std::string("5"), std::string("a\n")}) progs.push_back({n, f, n == "xhexb.x" ? slurp(ctx.repo + "/tests/x/hello_putval.x") : in}); }
      else rep.st.add("runs_not_compiled");
    }
    // code outside the loaded image: the program stores a two-instruction routine (LDAC 0; OPR SVC) at word D and enters it with BRB; D from just past the image to the last word
    for (int D : {8, 9, 10, 12, 16, 64, 1000, 4096, 65535, 65536, 131072, 199999}) {
      std::string src = "BR start\nDATA 150000\nstart\nLDAC 75\nLDBM 1\nSTAI 2\nLDAC 54064\nSTAM " + std::to_string(D) + "\nLDBC " + std::to_string(D * 4) + "\nOPR BRB\n";
      auto r = ad::assemble_text(src, ad::A_FILE, ctx.scratch + "/t.bin");
      if (r.kind == 0) progs.push_back({"code-outside-image:" + std::to_string(D), r.file, ""}); else rep.st.add("runs_not_assembled");
    }
    auto body = [&](uint64_t b, uint64_t e, const std::set<uint64_t> &skip, Stats &st, volatile uint64_t *cur) {
      std::string dir = ctx.scratch + "/runs" + std::to_string(b); mkdir(dir.c_str(), 0755); if (chdir(dir.c_str())) exit(3);
      for (uint64_t i = b; i < e; i++) {
        *cur = i; if (skip.count(i)) continue;
        uint64_t steps = 0;
        std::string r = runLockstep(progs[i].file, progs[i].input, ctx.thorough() ? 400000000ull : 20000000ull, st, steps, dir);
        st.add("runs_programs"); st.add("runs_steps", steps);
        if (!r.empty()) st.violation("runs:" + progs[i].name, i, Obj().kv("family", "runs").kv("program", progs[i].name).kv("input_hex", hexs(progs[i].input)).kv("what", r).str());
        // loader: the words the file holds, nothing else
        auto img = refisa::parseImage(progs[i].file);
        for (int fill : {0x00, 0xA5}) {
          simh::Sim s; s.create(fill); std::vector<uint32_t> before(s.v.mem, s.v.mem + refisa::MEM_WORDS);
          spit(dir + "/l.bin", progs[i].file); ad::sim_load(s.v, (dir + "/l.bin").c_str());
          Machine m; m.loadWords(img.body);
          bool ok = true;
          for (uint32_t w = 0; w < refisa::MEM_WORDS && ok; w++) { uint32_t exp = w < img.nwords ? m.mem[w] : before[w]; if (s.v.mem[w] != exp) ok = false; }
          st.add("loader_checks");
          if (!ok) st.violation("loader", i, Obj().kv("family", "loader").kv("program", progs[i].name).kv("fill", fill).str());
          unlink((dir + "/l.bin").c_str());
        }
      }
      for (int n = 0; n < 8; n++) unlink(("simout" + std::to_string(n)).c_str());
      unlink("run.bin");
      if (chdir(ctx.scratch.c_str())) exit(3);
      rmdir(dir.c_str());
    };
    RunResult r = run_chunks(ctx, "runs", progs.size(), progs.size(), body, [&](uint64_t i) { return Obj().kv("family", "runs").kv("program", progs[i].name).str(); }, 600.0);
    rep.st.merge(r.stats);
    if (!r.complete) rep.caps.push_back("runs: deadline reached");
    // synthetic loader images: sizes 1..64 words, byte-lane patterns, with and without debug tables
    Stats st;
    for (uint32_t n = 1; n <= 64; n++) for (int variant = 0; variant < 2; variant++) {  // well-formed files only: without / with debug tables
      std::string f; uint32_t len = variant == 2 ? (n + 1) / 2 : n;
      for (int k = 0; k < 4; k++) f += (char)((len >> (8 * k)) & 0xFF);
      for (uint32_t i = 0; i < n * 4; i++) f += (char)((i * 37 + n * 11 + 1) & 0xFF);
      if (variant == 1) { f += std::string("\x01\0\0\0", 4) + "sym" + std::string("\0", 1) + std::string("\x01\0\0\0\0\0\0\0\x04\0\0\0", 12); }
      simh::Sim s; s.create(0xA5); std::vector<uint32_t> before(s.v.mem, s.v.mem + 256);
      spit(ctx.scratch + "/l.bin", f); ad::sim_load(s.v, (ctx.scratch + "/l.bin").c_str());
      bool ok = true;
      for (uint32_t w = 0; w < 256; w++) {
        uint32_t exp = before[w];
        if (w < len) { exp = 0; for (int k = 0; k < 4; k++) exp |= (uint32_t)(uint8_t)f[4 + w * 4 + k] << (8 * k); }
        if (s.v.mem[w] != exp) ok = false;
      }
      st.add("loader_checks");
      if (variant == 1) { auto sy = ad::sim_symbols(s.v); if (sy.size() != 1 || sy[0].first != "sym" || sy[0].second != 4) ok = false; }
      if (!ok) st.violation("loader", n * 4 + variant, Obj().kv("family", "loader").kv("words", n).kv("variant", variant).str());
    }
    // large images: sizes around every power-of-two / quarter / full-memory boundary of the 200000-word memory
    for (uint32_t n : {1000u, 16383u, 16384u, 49999u, 50000u, 50001u, 65535u, 65536u, 65537u, 100000u, 131072u, 199000u, 199999u, 200000u}) {
      std::string f; for (int k = 0; k < 4; k++) f += (char)((n >> (8 * k)) & 0xFF);
      f.resize(4 + (size_t)n * 4);
      for (uint32_t w = 0; w < n; w++) { uint32_t v = w * 2654435761u + 12345; memcpy(&f[4 + (size_t)w * 4], &v, 4); }
      simh::Sim s; s.create(0xA5); spit(ctx.scratch + "/l.bin", f);
      for (uint32_t w = 0; w < refisa::MEM_WORDS; w++) s.v.mem[w] = ~w;   // planted after construction: load() must overwrite exactly the image words
      int rc = run_isolated([&] { ad::sim_load(s.v, (ctx.scratch + "/l.bin").c_str()); for (uint32_t w = 0; w < refisa::MEM_WORDS; w++) { uint32_t exp = w < n ? w * 2654435761u + 12345 : ~w; if (s.v.mem[w] != exp) _exit(9); } }, 60);
      st.add("loader_checks"); st.add("loader_large_images");
      if (rc != 0) st.violation("loader:large-image", n, Obj().kv("family", "loader").kv("words", n).kv("what", rc == 9 ? "memory after load differs from the file's words (or words beyond the image changed)" : "load() did not return normally (effect " + std::to_string(rc) + ")").str());
    }
    unlink((ctx.scratch + "/l.bin").c_str());
    rep.st.merge(st);
  }

  // ================= family: dfs (last: iterative deepening uses whatever budget is left)
  phase(ctx, "dfs");
  int depth = ctx.thorough() ? 7 : 5;
  if (getenv("HEXMC_C02_DEPTH")) depth = atoi(getenv("HEXMC_C02_DEPTH"));
  int completedDepth = 0;
  for (int d = 2; d <= depth; d++) {
    if (ctx.expired()) { rep.caps.push_back("dfs: deadline before depth " + std::to_string(d)); break; }
    // chunks = first byte choice x second byte choice
    uint64_t nch = (uint64_t)NSIGMA * NSIGMA;
    auto body = [&](uint64_t b, uint64_t e, const std::set<uint64_t> &skip, Stats &st, volatile uint64_t *cur) {
      std::string dir = ctx.scratch + "/dfs" + std::to_string(b); mkdir(dir.c_str(), 0755); if (chdir(dir.c_str())) exit(3);
      {
        Pair P; P.init(false);
        for (uint64_t i = b; i < e; i++) {
          *cur = i; if (skip.count(i)) continue;
          Dfs D(P, st, d);
          // force the first two chosen bytes
          uint8_t b0 = SIGMA[i / NSIGMA], b1 = SIGMA[i % NSIGMA];
          P.setRegs(0, 0, 0, 0); P.env = Env(); P.sim.setInput(""); P.sim.ob.data.clear();
          P.poke(0, b0 | (b1 << 8)); D.chosen[0] = D.chosen[1] = 1; D.trace = {b0, b1};
          D.go(0);
          P.poke(0, 0);
          st.add("dfs_states", D.states); st.add("dfs_transitions", D.transitions); st.add("dfs_leaves", D.leaves); st.maxv("dfs_depth", D.maxd);
        }
        P.sim.destroy();
        for (int n = 0; n < 8; n++) unlink(("simout" + std::to_string(n)).c_str());
      }
      if (chdir(ctx.scratch.c_str())) exit(3);
      rmdir(dir.c_str());
    };
    Ctx c2 = ctx;
    RunResult r = run_chunks(c2, "dfs" + std::to_string(d), nch, nch, body, [&](uint64_t i) { return Obj().kv("family", "dfs").kv("first_bytes_hex", hexs(std::string{(char)SIGMA[i / NSIGMA], (char)SIGMA[i % NSIGMA]})).str(); }, 300.0);
    if (r.complete) {
      completedDepth = d;
      // keep only the deepest completed depth's counters (shallower ones are subsumed)
      for (auto k : {"dfs_states", "dfs_transitions", "dfs_leaves", "dfs_steps", "dfs_pruned_revisit", "dfs_skipped_out_of_range", "dfs_skipped_undefined", "dfs_left_window"}) rep.st.c.erase(k);
      rep.st.merge(r.stats);
    } else { rep.caps.push_back("dfs: depth " + std::to_string(d) + " not completed before the deadline"); for (auto &v : r.stats.viols) rep.st.viols.insert(v); break; }
  }

  // ---- evidence
  auto &c = rep.st.c;
  rep.states = c["dfs_states"] + c["grid_steps"] + c["svc_steps"] + c["whole_runs"];
  rep.transitions = c["dfs_transitions"] + c["grid_steps"] + c["svc_steps"] + c["runs_steps"];
  rep.validated = c["grid_steps"] + c["svc_steps"] + c["dfs_steps"] + c["runs_steps"] + c["whole_steps"] + c["filein_steps"];
  rep.evaluations = rep.validated;
  rep.nontrivial = c["grid_steps"] + c["svc_steps"] + c["dfs_states"];
  rep.rule = "grid: every (instruction byte 0..255, pc lane, oreg, areg, breg) over the corner set K (registers an opcode ignores enumerated on 2 corners), patterned memory; "
             "svc: every (lane, oreg, call, sp, value, stream, input answer); dfs: every instruction sequence over a 32-byte alphabet chosen lazily at fetch time from reset, "
             "branching on input answers, to the stated depth, pruned on revisited (registers, write-log, io, remaining depth) states; all cases are distinct by construction; "
             "non-trivial = the reference classifies the step as defined and in range (others are skipped and counted separately)";
  rep.bounds.kv("corner_set_size", nk).kv("pc_lanes", NPC).kv("dfs_alphabet", (uint64_t)NSIGMA).kv("dfs_depth_completed", completedDepth).kv("dfs_depth_target", depth);
  rep.assumptions = {"RefISA (src/common/refisa.hpp) is a faithful transcription of docs/PDFs/hexb.pdf; it is self-tested against a literal effect table",
                     "steps the ISA leaves undefined (opcode 0xC, OPR>3, SVC>2) or whose addresses leave the 200000-word memory are outside the property and skipped",
                     "stream numbers >= 2^31 are not exercised (signedness of the stream word is not fixed by the ISA text)"};
  rep.trusted = {"g++ 12", "src/common/refisa.hpp", "src/adapters/tools.cpp (-fno-access-control view of hexsim::Processor)"};
  return rep.finish();
}
