// C01 — xcmp preserves X source semantics in the binaries it emits.
// Every program of the generated families x every input found by branching on `read` answers is judged by the independent reference
// interpreter RefX; programs it deems fully defined are compiled by the real xcmp driver, run on the real hexsim and compared.
#include "common/mc.hpp"
#include "common/xgen.hpp"
#include "common/xrun.hpp"

using namespace mc;
static Ctx ctx;

static void checkProgram(xrun::Runner &R, const std::string &src, const std::string &family, const std::string &shape, uint64_t order, Stats &st, bool verbose = false) {
  auto S = xrun::searchInputs(src);
  st.add("programs"); st.add("refx_runs", S.runs); st.add("dropped_undefined", S.undefined); st.add("dropped_unsupported", S.unsupported); st.add("dropped_budget", S.budget);
  st.add("input_search_capped", S.capped);
  if (S.syntax) { st.add("generator_syntax_errors"); st.violation("harness:generated-program-does-not-parse", order, Obj().kv("family", family).kv("source", src).kv("what", S.firstReason).str()); return; }
  if (verbose) printf("reference: %zu defined (input) cases, %llu undefined (%s)\n", S.kept.size(), (unsigned long long)S.undefined, S.firstReason.c_str());
  if (S.kept.empty()) { st.add("programs_without_defined_case"); return; }
  st.add("programs_kept");
  auto viol = [&](const std::string &kind, const std::string &what, const std::string &input) {
    st.violation(family + ":" + kind, order, Obj().kv("family", family).kv("shape", shape).kv("source", src).kv("input_hex", hexs(input)).kv("what", what).str());
  };
  ad::XResult cr = R.compile(src);
  if (cr.status != 0) { viol("compile-error", "a program the reference deems defined was rejected: " + cr.err, ""); return; }
  bool first = true;
  for (auto &c : S.kept) {
    uint64_t cap = c.oc.steps * 60 + 20000;
    xrun::ImplRun r = R.run(c.input, cap);
    st.add("executions");
    std::string kind, w = xrun::compare(c.oc, r, kind);
    if (verbose) printf("input %s: reference exit=%d out=%s consumed=%zu | hexsim exit=%d out=%s consumed=%zu %s\n", hexs(c.input).c_str(), c.oc.exitValue, hexs(c.oc.out).c_str(), c.oc.consumed, r.rv, hexs(r.out).c_str(), r.consumed, w.c_str());
    if (!w.empty()) { viol(kind, w, c.input); break; }
    bool anyFile = false; for (int n = 0; n < 8; n++) if (!c.oc.files[n].empty()) anyFile = true;
    if (anyFile) {
      std::string files[8]; R.collectFiles(files);
      for (int n = 0; n < 8; n++) if (files[n] != c.oc.files[n]) { viol("file-stream", "simout" + std::to_string(n) + " holds '" + hexs(files[n]) + "' expected '" + hexs(c.oc.files[n]) + "'", c.input); break; }
      st.add("executions_with_file_streams");
    }
    if (first) {
      // the result of a defined program must not depend on what memory outside the image holds before the run
      xrun::ImplRun r2 = R.run(c.input, cap, 0xA5A5A5A5u);
      st.add("executions"); st.add("background_differential_runs");
      std::string k2, w2 = xrun::compare(c.oc, r2, k2);
      if (!w2.empty()) viol("depends-on-unwritten-memory:" + k2, "with memory above the image pre-set to A5A5A5A5: " + w2, c.input);
      if (anyFile) { std::string again[8]; R.collectFiles(again); for (int n = 0; n < 8; n++) if (again[n] != c.oc.files[n]) { viol("file-stream", "second run: simout" + std::to_string(n) + " differs", c.input); break; } }
      first = false;
    }
    st.outcome(mix(fnv(c.oc.out), (uint32_t)c.oc.exitValue));
    if (c.oc.calls > 0) st.add("executions_with_calls"); if (c.oc.reads) st.add("executions_with_reads");
  }
}

int main(int argc, char **argv) {
  ctx = parse_args("C01", argc, argv, 400, 1700);
  Report rep; rep.ctx = ctx;
  if (!ctx.replayPath.empty()) {
    JV v; if (!jparse(slurp(ctx.replayPath), v)) harness_fail("cannot parse replay");
    const JV *c = v.get("case"); if (c && c->get("case")) c = c->get("case"); if (!c) harness_fail("no case");
    std::string src = c->str("source");
    printf("%s\n", src.c_str());
    std::string dir = ctx.scratch + "/replay"; mkdir(dir.c_str(), 0755); if (chdir(dir.c_str())) harness_fail("chdir");
    int rc = run_isolated([&] { xrun::Runner R; R.init(dir); Stats st; checkProgram(R, src, "replay", "", 0, st, true); R.cleanup(); for (auto &p : st.viols) printf("%s: %s\n", p.first.c_str(), p.second.json.c_str()); if (!st.viols.empty()) _exit(7); }, 120);
    if (rc != 0) { printf("VIOLATION property=C01 replay=%s (effect %d)\n", ctx.replayPath.c_str(), rc); return 1; }
    printf("replay: compiled program agrees with the reference on every explored input\n"); return 0;
  }
  // ---- reference self-test: RefX must agree with every expectation the repository's own unit tests state (where it gives a verdict)
  {
    JV v; if (!jparse(slurp(ctx.verif + "/selftest/x_expectations.json"), v)) harness_fail("selftest/x_expectations.json missing");
    int agree = 0, dropped = 0;
    for (auto &e : v.a) {
      auto o = refx::run(e.str("source"), unhex(e.str("input_hex")), 50000000, 5000);
      if (o.status != refx::Outcome::OK) { dropped++; continue; }
      if ((e.get("exit") && (int32_t)e.num("exit") != o.exitValue) || (e.get("stdout_hex") && unhex(e.str("stdout_hex")) != o.out)) harness_fail("RefX disagrees with the repository's unit test " + e.str("test"));
      agree++;
    }
    if (agree < 40) harness_fail("RefX self-test covers too few of the repository's expectations");
    rep.extra.kv("refx_selftest_agree", agree).kv("refx_selftest_outside_subset", dropped);
  }
  xgen::Corpus C; C.build(ctx.thorough());
  phase(ctx, "corpus: " + std::to_string(C.total) + " programs in " + std::to_string(C.fams.size()) + " families");
  auto body = [&](uint64_t b, uint64_t e, const std::set<uint64_t> &skip, Stats &st, volatile uint64_t *cur) {
    std::string dir = ctx.scratch + "/w" + std::to_string(b); mkdir(dir.c_str(), 0755); if (chdir(dir.c_str())) exit(3);
    xrun::Runner R; R.init(dir);
    for (uint64_t i = b; i < e; i++) {
      *cur = i; if (skip.count(i)) continue;
      if (ctx.expired()) { st.add("programs_skipped_deadline"); continue; }
      std::string shape, fam; std::string src = C.make(i, &shape, &fam);
      checkProgram(R, src, fam, shape, i, st);
      if (i % 9973 == 0) st.sample(Obj().kv("family", fam).kv("shape", shape).kv("source", src).str(), 6);
    }
    R.cleanup();
    // nothing may have been written to a file stream unexpectedly
    DIR *d = opendir(dir.c_str()); if (d) { while (auto en = readdir(d)) { std::string n = en->d_name; if (n != "." && n != "..") { st.violation("unexpected-file-in-working-directory", b, Obj().kv("file", n).kv("chunk_begin", b).str()); unlink((dir + "/" + n).c_str()); } } closedir(d); }
    if (chdir(ctx.scratch.c_str())) exit(3);
    rmdir(dir.c_str());
  };
  auto describe = [&](uint64_t i) { std::string shape, fam; std::string src = C.make(i, &shape, &fam); return Obj().kv("family", fam).kv("shape", shape).kv("source", src).str(); };
  auto r = run_chunks(ctx, "c01", C.total, 2048, body, describe, 60);
  // crashes of the compiler: key by family
  Stats merged;
  for (auto &p : r.stats.viols) {
    std::string sig = p.first;
    if (sig.rfind("crash:", 0) == 0 || sig == "hang") { JV v; if (jparse(p.second.json, v)) { const JV *c = v.get("case"); if (c) sig = c->str("family") + ":compiler-" + sig; } }
    auto &dst = merged.viols[sig]; uint64_t cnt = dst.count + p.second.count; if (dst.count == 0 || p.second.order < dst.order) dst = p.second; dst.sig = sig; dst.count = cnt;
  }
  r.stats.viols = merged.viols;
  rep.st.merge(r.stats);
  if (!r.complete || rep.st.c["programs_skipped_deadline"]) rep.caps.push_back("deadline: " + std::to_string(rep.st.c["programs_skipped_deadline"]) + " programs not explored");
  auto &c = rep.st.c;
  rep.evaluations = c["executions"]; rep.states = c["refx_runs"]; rep.transitions = c["executions"] + c["refx_runs"]; rep.validated = c["executions"];
  rep.nontrivial = c["programs_kept"];
  rep.rule = "programs: F1 every expression with <=2 operator nodes over typed leaves (constants around the immediate/pool threshold, local, global, formal, val, a[c], a[i], formal array, read, call) "
             "in 19 contexts; F2 every call with arity 0..3 over 15 actual kinds (constants, variables, spilling temporaries, calls, nested calls, arrays, strings) in 14 call contexts, and system calls; "
             "F3 every statement tree up to the size bound over 10 atoms and 7 conditions; F4-F7 scoping, recursion depth, strings <=5 over {a,b,escape}, reserved-looking names; "
             "inputs: explicit-state search branching on every `read` answer over {00,01,'0','A',7F,80,FF,end} to depth 3; kept = RefX says fully defined; distinct by construction; "
             "distinct_nontrivial = programs with at least one defined (program,input) case that were compiled and executed";
  rep.bounds.kv("families", (uint64_t)C.fams.size()).kv("programs", C.total).kv("input_depth", 3);
  { Obj f; for (size_t i = 0; i < C.fams.size(); i++) f.kv(C.fams[i].name, C.fams[i].count); rep.extra.raw("family_sizes", f.str()); }
  rep.assumptions = {"RefX (src/common/refx.hpp) implements DESIGN.md Appendix B; it agrees with every expectation of the repository's unit tests that lies in its subset (checked at start)",
                     "programs the reference calls undefined/unsupported/over budget are dropped and counted; this can hide a defect but cannot raise a false alarm"};
  rep.trusted = {"src/common/refx.hpp", "src/adapters/tools.cpp"};
  return rep.finish();
}
