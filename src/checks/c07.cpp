// C07 — compile-time evaluation agrees with run-time evaluation.
// For every expression tree (<=2 operators), every valuation of its leaves over corner constants and every placement of each leaf as compile-time
// (literal, global val, local val) or run-time (local var, global var, val formal), the compiled program must behave like the all-run-time variant.
#include "common/mc.hpp"
#include "common/xrun.hpp"

using namespace mc;
static Ctx ctx;

enum Op { ADD, SUB, EQ, NE, LS, LE, GR, GE, AND, OR, NEG, NOT };
static const char *OPS[] = {"+", "-", "=", "~=", "<", "<=", ">", ">=", "and", "or", "-", "~"};
static bool opBoolArgs(Op o) { return o == AND || o == OR || o == NOT; }
static bool opBoolRes(Op o) { return o >= EQ && o != NEG; }

// shapes: 0 op(L,L)  1 un(L)  2 op(op(L,L),L)  3 op(L,op(L,L))  4 un(op(L,L))  5 op(un(L),L)  6 op(L,un(L))  7 un(un(L))
struct Tree { int shape; Op outer, inner; int nleaves; bool leafBool[3]; bool resBool; };
static std::vector<Tree> trees() {
  std::vector<Tree> t;
  std::vector<Op> bins = {ADD, SUB, EQ, NE, LS, LE, GR, GE, AND, OR}, uns = {NEG, NOT};
  for (Op o : bins) t.push_back({0, o, o, 2, {opBoolArgs(o), opBoolArgs(o), false}, opBoolRes(o)});
  for (Op o : uns) t.push_back({1, o, o, 1, {opBoolArgs(o), false, false}, opBoolRes(o)});
  for (Op o : bins) for (Op i : bins) if (opBoolRes(i) == opBoolArgs(o)) {
    t.push_back({2, o, i, 3, {opBoolArgs(i), opBoolArgs(i), opBoolArgs(o)}, opBoolRes(o)});
    t.push_back({3, o, i, 3, {opBoolArgs(o), opBoolArgs(i), opBoolArgs(i)}, opBoolRes(o)});
  }
  for (Op o : uns) for (Op i : bins) if (opBoolRes(i) == opBoolArgs(o)) t.push_back({4, o, i, 2, {opBoolArgs(i), opBoolArgs(i), false}, opBoolRes(o)});
  for (Op o : bins) for (Op i : uns) if (opBoolRes(i) == opBoolArgs(o)) { t.push_back({5, o, i, 2, {opBoolArgs(i), opBoolArgs(o), false}, opBoolRes(o)}); t.push_back({6, o, i, 2, {opBoolArgs(o), opBoolArgs(i), false}, opBoolRes(o)}); }
  for (Op o : uns) for (Op i : uns) if (opBoolRes(i) == opBoolArgs(o)) t.push_back({7, o, i, 1, {opBoolArgs(i), false, false}, opBoolRes(o)});
  return t;
}
static std::string lit(int32_t v) { if (v >= 0) return std::to_string(v); char b[16]; snprintf(b, sizeof b, "#%08X", (uint32_t)v); return b; }
static std::string render(const Tree &t, const std::string L[3]) {
  auto bin = [](const std::string &a, Op o, const std::string &b) { return a + " " + OPS[o] + " " + b; };
  switch (t.shape) {
  case 0: return bin(L[0], t.outer, L[1]);
  case 1: return std::string(OPS[t.outer]) + L[0];
  case 2: return bin("(" + bin(L[0], t.inner, L[1]) + ")", t.outer, L[2]);
  case 3: return bin(L[0], t.outer, "(" + bin(L[1], t.inner, L[2]) + ")");
  case 4: return std::string(OPS[t.outer]) + "(" + bin(L[0], t.inner, L[1]) + ")";
  case 5: return bin("(" + std::string(OPS[t.inner]) + L[0] + ")", t.outer, L[1]);
  case 6: return bin(L[0], t.outer, "(" + std::string(OPS[t.inner]) + L[1] + ")");
  default: return std::string(OPS[t.outer]) + "(" + std::string(OPS[t.inner]) + L[0] + ")";
  }
}
// Exact evaluation with a note of what the language leaves open: 1 = relational whose operand difference overflows, 2 = +/-/neg result wraps
static int32_t evalOp(Op o, int32_t a, int32_t b, int &flags) {
  int64_t d = (int64_t)a - b, d2 = (int64_t)b - a;
  switch (o) {
  case ADD: { int64_t s = (int64_t)a + b; if (s != (int32_t)s) flags |= 2; return (int32_t)(uint32_t)((uint32_t)a + (uint32_t)b); }
  case SUB: if (d != (int32_t)d) flags |= 2; return (int32_t)((uint32_t)a - (uint32_t)b);
  case NEG: if (a == INT32_MIN) flags |= 2; return (int32_t)(0u - (uint32_t)a);
  case EQ: return a == b; case NE: return a != b;
  case LS: case LE: case GR: case GE: if (d != (int32_t)d || d2 != (int32_t)d2) flags |= 1; return o == LS ? a < b : o == LE ? a <= b : o == GR ? a > b : a >= b;
  case AND: return a && b; case OR: return a || b; case NOT: return !a;
  }
  return 0;
}
static int32_t evalTree(const Tree &t, const int32_t v[3], int &flags) {
  switch (t.shape) {
  case 0: return evalOp(t.outer, v[0], v[1], flags);
  case 1: return evalOp(t.outer, v[0], 0, flags);
  case 2: return evalOp(t.outer, evalOp(t.inner, v[0], v[1], flags), v[2], flags);
  case 3: return evalOp(t.outer, v[0], evalOp(t.inner, v[1], v[2], flags), flags);
  case 4: return evalOp(t.outer, evalOp(t.inner, v[0], v[1], flags), 0, flags);
  case 5: return evalOp(t.outer, evalOp(t.inner, v[0], 0, flags), v[1], flags);
  case 6: return evalOp(t.outer, v[0], evalOp(t.inner, v[1], 0, flags), flags);
  default: return evalOp(t.outer, evalOp(t.inner, v[0], 0, flags), 0, flags);
  }
}
// kinds: 0 literal, 1 global val, 2 local val | 3 local var, 4 global var, 5 val formal
static std::string program(const Tree &t, const int32_t v[3], const int k[3], int context, int32_t expect = 0) {
  std::string gdecl, ldecl, init, formals, actuals, L[3];
  for (int j = 0; j < t.nleaves; j++) {
    std::string n = std::to_string(j), l = lit(v[j]);
    switch (k[j]) {
    case 0: L[j] = l; break;
    case 1: gdecl += "val c" + n + " = " + l + ";\n"; L[j] = "c" + n; break;
    case 2: ldecl += "val d" + n + " = " + l + "; "; L[j] = "d" + n; break;
    case 3: ldecl += "var x" + n + "; "; init += "x" + n + " := " + l + "; "; L[j] = "x" + n; break;
    case 4: gdecl += "var g" + n + ";\n"; init += "g" + n + " := " + l + "; "; L[j] = "g" + n; break;
    case 6: L[j] = "fx(" + l + ")"; break;   // a call with an observable effect (counts itself) that yields the value
    default: formals += std::string(formals.empty() ? "" : ", ") + "val f" + n; actuals += std::string(actuals.empty() ? "" : ", ") + l; L[j] = "f" + n; break;
    }
  }
  std::string e = render(t, L);
  // contexts: 0 exit argument, 1 stored array element, 2 subscript of a read, 3 subscript of a write, 4 second actual of a call, 5 operand of a comparison in a condition,
  // 6 subscript offset by a run-time index (w[i + e] with i = 0), 7 operand next to a call
  static const char *W8 = "w[0] := 100; w[1] := 101; w[2] := 102; w[3] := 103; w[4] := 104; w[5] := 105; w[6] := 106; w[7] := 107; ";
  static const char *SUM8 = "((w[0] + (w[1] + w[1])) + ((w[2] + w[2]) + (w[2] + (w[3] + w[3])))) + (((w[4] + w[4]) + (w[4] + w[5])) + ((w[6] + w[6]) + (w[7] + (w[7] + w[7]))))";
  std::string body;
  switch (context) {
  case 0: body = "0(" + e + ")"; break;
  case 1: body = "r[1] := " + e + "; 0(r[1])"; break;
  case 2: body = std::string(W8) + "0(w[" + e + "])"; break;
  case 3: body = std::string(W8) + "w[" + e + "] := 9; 0(" + SUM8 + ")"; break;
  case 4: body = "0(pick(5, " + e + "))"; break;
  case 5: body = "if (" + e + ") = " + lit(expect) + " then 0(11) else 0(22)"; break;
  case 6: body = std::string(W8) + "r[0] := 0; 0(w[r[0] + (" + e + ")])"; break;
  case 7: body = "0(pick(1, 2) + (" + e + "))"; break;
  case 9: body = "if " + e + " then 0(11) else 0(22)"; break;                 // the expression itself is the condition (zero / non-zero)
  case 10: body = "while " + e + " do { r[0] := 5; 0(33) }; 0(44)"; break;
  case 11: body = "0(p3(" + e + ", pick(2, 5), " + e + "))"; break;           // the same expression as first and third actual around an actual that contains a call
  default: body = "r[1] := " + e + "; 0(r[1] + cnt)"; break;   // 8: the value plus 1000 for every effectful call that was made
  }
  return gdecl + "array r[2]; array w[8]; var cnt;\nfunc pick(val a, val b) is return b - a\nfunc fx(val v) is { cnt := cnt + 1000; return v }\nfunc p3(val a, val b, val c) is return (a + a) + ((b + b) + (b + c))\nproc t(" + formals + ") is " + ldecl + "\n{ cnt := 0; " + init + body + " }\nproc main() is t(" + actuals + ")\n";
}

int main(int argc, char **argv) {
  ctx = parse_args("C07", argc, argv, 600, 4500);
  Report rep; rep.ctx = ctx;
  std::vector<int32_t> V = ctx.thorough() ? std::vector<int32_t>{0, 1, -1, 2, 5, 15, 16, 255, 256, 65535, 65536, -65535, -65536, 65537, INT32_MAX, INT32_MIN, INT32_MIN + 1}
                                          : std::vector<int32_t>{0, 1, -1, 2, 5, 16, 65535, 65536, -65536, INT32_MAX, INT32_MIN};
  std::vector<int> KINDS = ctx.thorough() ? std::vector<int>{0, 1, 2, 3, 4, 5} : std::vector<int>{0, 1, 3};
  std::vector<int> KINDS_EXTRA = {0, 1, 3};
  std::vector<int32_t> VB = {0, 1};
  auto T = trees();
  auto runOne = [&](xrun::Runner &R, const std::string &src, int32_t &rv, std::string &what) -> int {  // 0 ok, 1 compile error, 2 run problem
    auto cr = R.compile(src);
    if (cr.status != 0) { what = "rejected: " + cr.err; return 1; }
    auto r = R.run("", 100000);
    if (r.kind) { what = "hexsim threw " + r.err; return 2; }
    if (r.hitCycleCap) { what = "did not terminate"; return 2; }
    rv = r.rv; return 0;
  };
  if (!ctx.replayPath.empty()) {
    JV v; if (!jparse(slurp(ctx.replayPath), v)) harness_fail("cannot parse replay");
    const JV *c = v.get("case"); if (c && c->get("case")) c = c->get("case"); if (!c) harness_fail("no case");
    std::string dir = ctx.scratch + "/replay"; mkdir(dir.c_str(), 0755); if (chdir(dir.c_str())) harness_fail("chdir");
    int rc = run_isolated([&] { xrun::Runner R; R.init(dir); int32_t a = 0, b = 0; std::string w1, w2; int s1 = runOne(R, c->str("variant_source"), a, w1), s2 = runOne(R, c->str("runtime_source"), b, w2);
      printf("variant:\n%s=> %d %s\nall-run-time:\n%s=> %d %s\n", c->str("variant_source").c_str(), a, w1.c_str(), c->str("runtime_source").c_str(), b, w2.c_str()); R.cleanup(); if (s1 || s2 || a != b) _exit(7); }, 60);
    if (rc) { printf("VIOLATION property=C07 replay=%s\n", ctx.replayPath.c_str()); return 1; }
    printf("replay: variants agree\n"); return 0;
  }
  // cases: (tree, valuation)
  std::vector<uint64_t> prefix = {0};
  for (auto &t : T) { uint64_t n = 1; for (int j = 0; j < t.nleaves; j++) n *= t.leafBool[j] ? VB.size() : V.size(); prefix.push_back(prefix.back() + n); }
  uint64_t total = prefix.back();
  phase(ctx, std::to_string(T.size()) + " trees, " + std::to_string(total) + " (tree,valuation) groups, " + std::to_string(KINDS.size()) + " kinds per leaf");
  auto decode = [&](uint64_t idx, int &ti, int32_t v[3]) {
    ti = std::upper_bound(prefix.begin(), prefix.end(), idx) - prefix.begin() - 1; uint64_t r = idx - prefix[ti];
    for (int j = 0; j < T[ti].nleaves; j++) { auto &S = T[ti].leafBool[j] ? VB : V; v[j] = S[r % S.size()]; r /= S.size(); }
  };
  auto body = [&](uint64_t b, uint64_t e, const std::set<uint64_t> &skip, Stats &st, volatile uint64_t *cur) {
    std::string dir = ctx.scratch + "/w" + std::to_string(b); mkdir(dir.c_str(), 0755); if (chdir(dir.c_str())) exit(3);
    xrun::Runner R; R.init(dir);
    for (uint64_t i = b; i < e; i++) {
      *cur = i; if (skip.count(i)) continue;
      if (ctx.expired()) { st.add("groups_skipped_deadline"); continue; }
      int ti; int32_t v[3] = {0, 0, 0}; decode(i, ti, v); const Tree &t = T[ti];
      int flags = 0; int32_t exact = evalTree(t, v, flags);
      int ctxN = 12;
      for (int cx = 0; cx < ctxN; cx++) {
        // subscript contexts only where the exact value is a valid index; boolean-typed results are not used as subscripts, actuals of arithmetic or comparison operands
        if ((cx == 2 || cx == 3 || cx == 6) && (t.resBool || (flags & ~0) != 0 || exact < 0 || exact > 7)) continue;
        if ((cx == 4 || cx == 5 || cx == 7) && t.resBool) continue;
        if (cx == 8) continue;   // the effect context has its own loop below
        if (cx >= 9 && !ctx.thorough() && t.nleaves == 3 && (i % 3) != (uint64_t)(cx % 3)) continue;   // quick: 3-leaf groups take one of the three last contexts in turn
        if (cx >= 2 && !ctx.thorough() && t.nleaves == 3 && (i % 3) != (uint64_t)(cx % 3) && cx < 9) continue;   // quick: each 3-leaf group takes a third of the extra contexts (the two condition contexts always run)
        int kr[3] = {3, 3, 3};
        std::string rsrc = program(t, v, kr, cx, exact); int32_t base = 0; std::string w;
        int s = runOne(R, rsrc, base, w); st.add("programs");
        std::string opsig = std::string(OPS[t.outer]) + (t.shape >= 2 ? std::string("/") + OPS[t.inner] : "") + ":shape" + std::to_string(t.shape);
        std::string cls = (flags & 1) ? "relational-difference-overflow" : (flags & 2) ? "arithmetic-wraps" : "exact";
        if (s) { st.violation("runtime-variant-failed:" + opsig, i, Obj().kv("runtime_source", rsrc).kv("variant_source", rsrc).kv("what", w).str()); continue; }
        if (cx <= 1 && !(flags & 1) && base != exact) st.violation("runtime-differs-from-exact-wrapping-semantics:" + opsig + ":" + cls, i, Obj().kv("runtime_source", rsrc).kv("variant_source", rsrc).kv("what", "run-time result " + std::to_string(base) + ", two's-complement evaluation " + std::to_string(exact)).str());
        if (flags == 0 && cx == 0) { auto o = refx::run(rsrc, ""); if (o.status == refx::Outcome::OK) { st.add("refx_checked"); if (o.exitValue != base) st.violation("runtime-differs-from-reference:" + opsig, i, Obj().kv("runtime_source", rsrc).kv("variant_source", rsrc).kv("what", "reference " + std::to_string(o.exitValue) + " run time " + std::to_string(base)).str()); } }
        // every placement of compile-time / run-time leaves
        const std::vector<int> &KS = cx >= 2 ? KINDS_EXTRA : KINDS;   // the extra contexts use literal / global val / local var only
        uint64_t nk = 1; for (int j = 0; j < t.nleaves; j++) nk *= KS.size();
        for (uint64_t kv = 0; kv < nk; kv++) {
          int k[3] = {3, 3, 3}; uint64_t r = kv; int nconst = 0;
          for (int j = 0; j < t.nleaves; j++) { k[j] = KS[r % KS.size()]; r /= KS.size(); if (k[j] < 3) nconst++; }
          if (k[0] == 3 && k[1] == 3 && k[2] == 3) continue;
          std::string src = program(t, v, k, cx, exact); int32_t got = 0; std::string w2;
          int s2 = runOne(R, src, got, w2); st.add("programs"); if (nconst) st.add("programs_with_compile_time_leaves");
          std::string place; for (int j = 0; j < t.nleaves; j++) place += k[j] < 3 ? 'C' : 'R';
          if (s2) st.violation("variant-failed:" + opsig + ":" + place, i, Obj().kv("runtime_source", rsrc).kv("variant_source", src).kv("what", w2).str());
          else if (got != base) st.violation("fold-differs-from-runtime:" + cls + ":" + opsig + ":" + place, i, Obj().kv("runtime_source", rsrc).kv("variant_source", src).kv("what", "variant gives " + std::to_string(got) + ", all-run-time variant gives " + std::to_string(base)).kv("class", cls).str());
        }
        st.outcome(mix(base, ti));
      }
      // context 8: some leaves are calls with an observable effect; the other leaves are run-time variables (base) or compile-time constants (variants): the same calls must be made
      if (t.nleaves >= 2 && !ctx.expired()) {
        std::string opsig = std::string(OPS[t.outer]) + (t.shape >= 2 ? std::string("/") + OPS[t.inner] : "") + ":shape" + std::to_string(t.shape);
        for (int cm = 1; cm < (1 << t.nleaves) - 1; cm++) {
          if (!ctx.thorough() && t.nleaves == 3 && (i + cm) % 3) continue;
          int kb[3] = {3, 3, 3}; for (int j = 0; j < t.nleaves; j++) if (cm & (1 << j)) kb[j] = 6;
          std::string rsrc = program(t, v, kb, 8, exact); int32_t base = 0; std::string w;
          int s0 = runOne(R, rsrc, base, w); st.add("programs");
          if (s0) { st.violation("runtime-variant-failed:effects:" + opsig, i, Obj().kv("runtime_source", rsrc).kv("variant_source", rsrc).kv("what", w).str()); continue; }
          int nfree = 0; for (int j = 0; j < t.nleaves; j++) if (!(cm & (1 << j))) nfree++;
          for (int kv = 0; kv < (1 << nfree); kv++) {
            int k[3] = {3, 3, 3}, q = 0; for (int j = 0; j < t.nleaves; j++) { if (cm & (1 << j)) k[j] = 6; else { k[j] = (kv >> q) & 1; q++; } }
            std::string src = program(t, v, k, 8, exact); int32_t got = 0; std::string w2;
            int s2 = runOne(R, src, got, w2); st.add("programs"); st.add("programs_with_compile_time_leaves"); st.add("programs_with_effectful_calls");
            std::string place; for (int j = 0; j < t.nleaves; j++) place += k[j] == 6 ? 'F' : 'C';
            if (s2) st.violation("variant-failed:effects:" + opsig + ":" + place, i, Obj().kv("runtime_source", rsrc).kv("variant_source", src).kv("what", w2).str());
            else if (got != base) st.violation("fold-differs-from-runtime:effects:" + opsig + ":" + place, i, Obj().kv("runtime_source", rsrc).kv("variant_source", src).kv("what", "variant gives " + std::to_string(got) + ", run-time variant gives " + std::to_string(base) + " (value + 1000 per call made)").str());
          }
        }
      }
      st.add("groups"); if (flags & 1) st.add("groups_relational_overflow"); if (flags & 2) st.add("groups_wrapping");
      if (i % 30011 == 0) { int kk[3] = {0, 3, 1}; std::string LL[3] = {"L0", "L1", "L2"}; st.sample(Obj().kv("tree", render(t, LL)).kv("source", program(t, v, kk, 0)).str(), 5); }
    }
    R.cleanup();
    if (chdir(ctx.scratch.c_str())) exit(3);
    rmdir(dir.c_str());
  };
  auto describe = [&](uint64_t i) { int ti; int32_t v[3] = {0, 0, 0}; decode(i, ti, v); int k[3] = {0, 0, 0}; return Obj().kv("variant_source", program(T[ti], v, k, 0)).kv("note", "one of the placements of this (tree,valuation) group crashed the compiler").str(); };
  auto r = run_chunks(ctx, "c07", total, 1024, body, describe, 60);
  rep.st.merge(r.stats);
  if (!r.complete || rep.st.c["groups_skipped_deadline"]) rep.caps.push_back("deadline: " + std::to_string(rep.st.c["groups_skipped_deadline"]) + " groups not explored");
  auto &c = rep.st.c;
  rep.evaluations = c["programs"]; rep.states = c["groups"]; rep.transitions = c["programs"]; rep.validated = c["programs"];
  rep.nontrivial = c["programs_with_compile_time_leaves"];
  rep.rule = "every expression tree with <=2 operators over X's 10 binary and 2 unary operators (boolean-typed operands under and/or/~) x every valuation of its leaves over the corner constants "
             "x 8 contexts (exit argument, stored element, subscript of a read and of a write and next to a run-time index where the value is a valid index, actual of a call, operand of a comparison, operand next to a call, the condition of an if and of a while, first and third actual around a call-containing actual; and one more in which any subset of the leaves are calls with a counted effect while the others are constants or variables) x every assignment of a kind to each leaf from {literal, global val, local val | local var, global var, val formal}; "
             "each variant must give the same exit value as the all-run-time variant, which itself must equal two's-complement evaluation (and RefX where defined); distinct by construction; "
             "non-trivial = programs with at least one compile-time leaf";
  rep.bounds.kv("values", (uint64_t)V.size()).kv("kinds", (uint64_t)KINDS.size()).kv("trees", (uint64_t)T.size()).kv("max_operators", 2);
  rep.assumptions = {"+, - and unary minus wrap modulo 2^32 at run time (the ISA's ADD/SUB); a relational whose operand difference overflows is compared as the run-time code does (sign of the wrapped difference)"};
  rep.trusted = {"src/adapters/tools.cpp", "evalTree in src/checks/c07.cpp", "src/common/refx.hpp"};
  return rep.finish();
}
