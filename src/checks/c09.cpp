// C09 — xcmp accepts or cleanly rejects every input (sanitizer build of the adapter; fork-isolated; fill-pattern differential).
#define ROBUST_DEFINE_NEW 1
#include <memory>
#include <dirent.h>
#include "common/robust.hpp"
#include "common/mc.hpp"
#include <algorithm>
#include "common/refx.hpp"
#include "common/xgen.hpp"
#include "common/xtok.hpp"
#include "adapters/tools.hpp"

using namespace mc;
static Ctx ctx;
static std::string g_out;

struct Outcome { int status, kind; std::string err, file; bool fileExists; bool operator==(const Outcome &o) const { return status == o.status && kind == o.kind && err == o.err && file == o.file && fileExists == o.fileExists; } };
static Outcome runOnce(const std::string &src, unsigned char fill) {
  robust::g_fill = fill; robust::g_fill_on = true; robust::dirtyStack(fill);
  unlink(g_out.c_str());
  ad::XResult r = ad::xcompile(src, ad::X_BINARY, g_out);
  robust::g_fill_on = false;
  Outcome o{r.status, r.kind, r.err, "", access(g_out.c_str(), F_OK) == 0};
  if (o.fileExists) o.file = slurp(g_out);
  return o;
}
static std::string srcClass(const std::string &s) {
  // coarse syntactic features, used to separate crash signatures
  bool high = false; for (unsigned char c : s) if (c >= 0x80) high = true;
  if (high) return "non-ascii";
  refx::Program pg; refx::Parser P(s, pg);
  if (!P.program()) return "unparsable";
  return "parsable";
}
static void judge(const std::string &src, uint64_t order, const std::string &family, Stats &st, const std::string &desc = "") {
  Outcome a = runOnce(src, 0x00), b = runOnce(src, 0xA5);
  st.add("inputs");
  auto rep = [&](const std::string &sig, const std::string &what) {
    Obj o; o.kv("family", family).kv("what", what).kv("source_hex", hexs(src.substr(0, 6000)));
    if (src.size() <= 600) o.kv("source", src);
    if (!desc.empty()) o.kv("edit", desc);
    st.violation(sig, order, o.str());
  };
  if (!(a == b)) { rep("fill-dependent:" + std::string(a.status == 0 && b.status == 0 ? "emitted-binary-differs" : "verdict-or-diagnostic-differs"), "outcome differs between heap/stack fill 00 and A5 (status " + std::to_string(a.status) + "/" + std::to_string(b.status) + ", diagnostics '" + a.err.substr(0, 80) + "'/'" + b.err.substr(0, 80) + "')"); return; }
  if (a.status == 0) {
    st.add("accepted");
    if (!a.fileExists || a.file.size() < 8) rep("accepted-without-output", "status 0 but no binary written");
    st.outcome(fnv(a.file));
  } else {
    st.add("rejected");
    if (a.kind == 3) rep("non-std-exception", "threw something that is not a std::exception");
    if (a.err.find("Error") == std::string::npos) rep("no-diagnostic", "rejected without a diagnostic (stderr: '" + a.err.substr(0, 80) + "')");
    if (a.fileExists) rep("rejected-but-emitted", "rejected (" + a.err.substr(0, 80) + ") but an output file exists");
    st.outcome(fnv(a.err.substr(0, a.err.find('\n'))));
  }
}

// ---- process level: the built executable itself (argument parsing, the catch site in main, exit status, stderr, output file)
static int runTool(const std::vector<std::string> &argv, const std::string &cwd, std::string &err, double timeout) {
  std::string errPath = cwd + "/stderr.txt";
  pid_t p = fork();
  if (p == 0) {
    if (chdir(cwd.c_str())) _exit(126);
    std::vector<char *> a; for (auto &s : argv) a.push_back((char *)s.c_str()); a.push_back(nullptr);
    if (!freopen("/dev/null", "rb", stdin) || !freopen("/dev/null", "wb", stdout) || !freopen(errPath.c_str(), "wb", stderr)) _exit(126);
    execv(a[0], a.data()); _exit(127);
  }
  double t0 = now(); int status = 0;
  while (true) { pid_t r = waitpid(p, &status, WNOHANG); if (r == p) break; if (now() - t0 > timeout) { kill(p, SIGKILL); waitpid(p, &status, 0); return -999; } usleep(300); }
  err = slurp(errPath);
  return WIFEXITED(status) ? WEXITSTATUS(status) : -WTERMSIG(status);
}
// runs `tool src [-o out | listingOpt]` and judges the contract; returns "" or what is wrong
static std::string judgeProcess(const std::string &tool, const std::string &src, const std::string &dir, const std::string &listingOpt, std::string &kind) {
  spit(dir + "/in.src", src); unlink((dir + "/out.bin").c_str()); unlink((dir + "/a.out").c_str());
  std::string err; std::vector<std::string> av = {tool, "in.src"};
  if (listingOpt.empty()) { av.push_back("-o"); av.push_back("out.bin"); } else av.push_back(listingOpt);
  int rc = runTool(av, dir, err, 60);
  bool emitted = access((dir + "/out.bin").c_str(), F_OK) == 0 || access((dir + "/a.out").c_str(), F_OK) == 0;
  if (rc == -999) { kind = "hang"; return "did not terminate within 60 s"; }
  if (rc < 0) { kind = "crash"; return "terminated by signal " + std::to_string(-rc) + " (stderr: " + err.substr(0, 120) + ")"; }
  if (rc == 0 && listingOpt.empty() && !emitted) { kind = "contract"; return "exit status 0 but no binary"; }
  if (rc != 0 && emitted) { kind = "contract"; return "non-zero status but a binary was left behind"; }
  if (rc != 0 && err.find("Error") == std::string::npos) { kind = "contract"; return "non-zero status " + std::to_string(rc) + " without a diagnostic (stderr: " + err.substr(0, 120) + ")"; }
  if (rc == 0 && err.find("Error") != std::string::npos) { kind = "contract"; return "diagnostic printed but exit status 0"; }
  return "";
}

static int runProc(const std::vector<std::string> &argv, const std::string &cwd, std::string &err, double timeout) {
  std::string errPath = cwd + "/stderr.txt";
  pid_t p = fork();
  if (p == 0) {
    if (chdir(cwd.c_str())) _exit(126);
    std::vector<char *> a; for (auto &s : argv) a.push_back((char *)s.c_str()); a.push_back(nullptr);
    if (!freopen("/dev/null", "rb", stdin) || !freopen("/dev/null", "wb", stdout) || !freopen(errPath.c_str(), "wb", stderr)) _exit(126);
    execv(a[0], a.data()); _exit(127);
  }
  double t0 = now(); int status = 0;
  while (true) { pid_t r = waitpid(p, &status, WNOHANG); if (r == p) break; if (now() - t0 > timeout) { kill(p, SIGKILL); waitpid(p, &status, 0); return -999; } usleep(500); }
  err = slurp(errPath);
  return WIFEXITED(status) ? WEXITSTATUS(status) : -WTERMSIG(status);
}

int main(int argc, char **argv) {
  ctx = parse_args("C09", argc, argv, 900, 2400);
  g_out = ctx.scratch + "/c09.out";
  Report rep; rep.ctx = ctx;
  if (!ctx.replayPath.empty()) {
    JV v; if (!jparse(slurp(ctx.replayPath), v)) harness_fail("cannot parse replay");
    const JV *c = v.get("case"); if (c && c->get("case")) c = c->get("case"); if (!c) harness_fail("no case");
    std::string src = unhex(c->str("source_hex")); g_out = ctx.scratch + "/replay.out";
    int rc = run_isolated([&] { Stats s2; judge(src, 0, "replay", s2); for (auto &p : s2.viols) printf("%s %s\n", p.first.c_str(), p.second.json.c_str()); if (!s2.viols.empty()) _exit(7); }, 120, (size_t)1 << 45);
    printf("replay: %s\n", rc == 0 ? "clean" : ("effect " + std::to_string(rc)).c_str());
    if (rc) { printf("VIOLATION property=C09 replay=%s\n", ctx.replayPath.c_str()); return 1; }
    return 0;
  }
  bool th = ctx.thorough();
  const std::vector<std::string> TOK = {"x", "7", "[", "]", "(", ")", "if", "then", "else", "while", "do", ":=", "skip", "{", "}", ";", ",", "var", "array", "proc", "func", "is", "stop", "~", "val",
                                        "\"s\"", "true", "false", "return", "+", "-", "or", "and", "=", "~=", "<", "<=", ">", ">="};
  struct Fam { std::string name; std::function<uint64_t()> count; std::function<std::string(uint64_t, std::string *)> make; uint64_t chunks; };
  std::vector<Fam> fams;
  std::vector<std::string> bytes; for (int i = 0; i < 256; i++) bytes.push_back(std::string(1, (char)i));
  auto B2 = std::make_shared<robust::Strings>(bytes, 2);
  fams.push_back({"bytes<=2", [=] { return B2->total; }, [=](uint64_t i, std::string *) { return B2->make(i); }, 64});
  std::vector<std::string> lexAlpha = {"a", "0", "9", "#", "'", "\"", "\\", "|", ":", "=", "<", ">", "~", "(", ")", "[", "]", "{", "}", ";", ",", "+", "-", " ", "\n", "\x80", "\xff", "%", "$"};
  auto L = std::make_shared<robust::Strings>(lexAlpha, th ? 5 : 4);
  fams.push_back({"lexical<=" + std::to_string(L->maxLen), [=] { return L->total; }, [=](uint64_t i, std::string *) { return L->make(i); }, 512});
  auto T = std::make_shared<robust::Strings>(TOK, th ? 4 : 3, " ");
  fams.push_back({"tokens<=" + std::to_string(T->maxLen), [=] { return T->total; }, [=](uint64_t i, std::string *) { return T->make(i); }, 512});
  // token strings placed where a program body / an expression is expected (reaches semantic analysis and code generation)
  auto TB = std::make_shared<robust::Strings>(TOK, th ? 4 : 3, " ");
  fams.push_back({"body-tokens<=" + std::to_string(TB->maxLen), [=] { return TB->total; }, [=](uint64_t i, std::string *) { return "var x; array a[2]; func f(val v) is return v proc p() is skip proc main() is { " + TB->make(i) + " }"; }, 512});
  fams.push_back({"expr-tokens<=" + std::to_string(TB->maxLen), [=] { return TB->total; }, [=](uint64_t i, std::string *) { return "var x; array a[2]; func f(val v) is return v proc main() is 0(" + TB->make(i) + ")"; }, 512});
  fams.push_back({"decl-tokens<=" + std::to_string(TB->maxLen), [=] { return TB->total; }, [=](uint64_t i, std::string *) { return "val k = 2; var g; " + TB->make(i) + " proc main() is 0(k)"; }, 512});
  // (c)+(d) single-token edits (delete/duplicate/swap/replace by every token, every identifier of the program, hostile literals) of shipped and seed programs
  std::vector<std::pair<std::string, std::string>> seeds;
  { DIR *d = opendir((ctx.repo + "/tests/x").c_str()); std::vector<std::string> names; if (d) { while (auto e = readdir(d)) { std::string n = e->d_name; if (n.size() > 2 && n.substr(n.size() - 2) == ".x") names.push_back(n); } closedir(d); } std::sort(names.begin(), names.end());
    for (auto &n : names) seeds.push_back({n, slurp(ctx.repo + "/tests/x/" + n)}); }
  { xgen::Corpus C; C.build(false); for (uint64_t i = 0; i < C.total; i += C.total / (th ? 37 : 11) + 1) { std::string sh, fam; seeds.push_back({"corpus:" + fam, C.make(i, &sh, &fam)}); } }
  seeds.push_back({"semantic-seed", semanticSeed()});
  for (auto &sd : seeds) {
    auto toks = tokenizeX(sd.second); if (toks.empty()) continue;
    std::vector<std::string> repl = editReplacements(toks, TOK);
    bool big = toks.size() > 3000;
    auto E = std::make_shared<robust::Edits>(toks, repl, " ", big);
    uint64_t stride = big ? (th ? 1 : 16) : ((toks.size() > 300 && !th) ? 5 : 1);
    fams.push_back({"edits:" + sd.first, [=] { return (E->total() + stride - 1) / stride; }, [=](uint64_t i, std::string *d) { return E->make(i * stride, d); }, 256});
  }
  // hand-picked semantic oddities
  auto S = std::make_shared<std::vector<std::string>>(std::vector<std::string>{
      "var g; val v = g; proc main() is 0(v)", "val v = w; proc main() is 0(v)", "val a = b; val b = a; proc main() is 0(a)", "proc main() is val l = m; 0(l)", "var n; array a[n]; proc main() is skip",
      "array a[0]; proc main() is a[0] := 1", "array a[-1]; proc main() is skip", "array a[200001]; proc main() is a[0] := 1", "array a[2147483647]; proc main() is skip", "array a[#FFFFFFFF]; proc main() is skip",
      "proc main() is 0(2147483647 + 1)", "proc main() is 0(-(-2147483648))", "proc main() is 0(#80000000 - 1)", "val v = 2147483647 + 1; proc main() is 0(v)", "proc main() is 0(-2147483648 < 1)",
      "proc p(proc q) is q() proc main() is p(main)", "func f(func g) is return g(1) func h(val x) is return x proc main() is 0(f(h))", "proc main() is main()", "proc main() is 0(main)", "proc main() is 0(main())",
      "proc main() is x := 1", "var x; var x; proc main() is x := 1", "var main; proc main() is main := 1", "proc f() is skip proc f() is stop proc main() is f()", "proc p(val a, val a) is 0(a) proc main() is p(1, 2)",
      "proc p(val a) is var a; { a := 1; 0(a) } proc main() is p(2)", "func f(val a) is skip proc main() is 0(f(1))", "proc p() is return 1 proc main() is p()", "func f() is return 1 proc main() is f()",
      "proc p(val a) is skip proc main() is p()", "proc p(val a) is skip proc main() is p(1, 2)", "proc p(array a) is skip proc main() is p(1)", "var g; proc p(val a) is skip proc main() is p(g, g, g, g, g, g, g, g, g, g, g, g)",
      "proc main() is 3(0)", "proc main() is 0()", "proc main() is 1()", "proc main() is 2()", "proc main() is 1(1)", "proc main() is 0(1, 2, 3)", "val s = 0 - 1; proc main() is s(0)", "val s = 3; proc main() is s(0)", "val s = 70000; proc main() is s(0)",
      "proc main() is 0(\"abc\")", "proc main() is 0(\"\")", "proc main() is 0(\"a\" + 1)", "array a[2]; proc main() is 0(a)", "array a[2]; proc main() is a := 1", "val k = 1; proc main() is k := 2", "proc main() is \"s\" := 1",
      "array a[2]; proc main() is 0(a[\"s\"])", "proc main() is 0(x[1])", "var x; proc main() is 0(x[1])", "var x; proc main() is x[1] := 2", "proc main() is { }", "proc main() is if 1 then else skip", "proc main() is while do skip",
      "proc main() is 0((((((((((((((((((((1))))))))))))))))))))", "", " ", "|comment only", "proc", "proc main", "proc main() is", "val", "val x", "val x =", "var", "array a[", "func f(val", "proc main() is 0('", "proc main() is 0('a", "proc main() is 0(\"abc",
      "proc main() is 0('\\", "proc main() is 0(#)", "proc main() is 0(#zz)", "proc main() is 0(99999999999999999999999999)", "proc main() is 0(1) proc", "proc main() is 0(1) 5", "proc main() is 0(1))", "proc main() is 0(\"" + std::string(300, 'a') + "\")",
      "proc main() is 0(\"\\n\\t\\r\\\\\\'\\\"\")", "proc main() is 1('\x80', 0)", "proc main() is 0(\"\x80\xff\")", "val put = 1; proc main() is put(\"s\", 0)"});
  { std::string many = "var g;\n"; for (int i = 0; i < 300; i++) many += "proc p" + std::to_string(i) + "(val v) is g := g + v\n"; many += "proc main() is { g := 0; "; for (int i = 0; i < 300; i++) many += "p" + std::to_string(i) + "(" + std::to_string(i) + "); "; many += "0(g) }"; S->push_back(many); }
  { std::string chain = "proc main() is 0(1"; for (int i = 0; i < 2000; i++) chain += " + 1"; chain += ")"; S->push_back(chain); }
  fams.push_back({"semantic-oddities", [=] { return (uint64_t)S->size(); }, [=](uint64_t i, std::string *) { return (*S)[i]; }, 32});

  // sizes: every construct that has a size, at sizes around each power of 256 a one-byte or two-byte field could hold (and a few in between)
  {
    auto Z = std::make_shared<std::vector<std::pair<std::string, std::string>>>();
    std::vector<int> sizes = {31, 32, 33, 63, 64, 65, 127, 128, 129, 254, 255, 256, 257, 258, 259, 260, 300, 500, 511, 512, 513, 1000, 1023, 1024, 1025, 2000, 4095, 4096, 4097};
    if (ctx.thorough()) for (int z : {8191, 8192, 16384, 32767, 32768, 65535, 65536, 65537, 100000}) sizes.push_back(z);
    auto rep_ = [](int n, const std::function<std::string(int)> &f, const std::string &sep) { std::string r; for (int i = 0; i < n; i++) { if (i) r += sep; r += f(i); } return r; };
    for (int n : sizes) {
      std::string N = std::to_string(n);
      std::string lit; for (int i = 0; i < n; i++) lit += (char)('a' + i % 26);
      Z->push_back({"string-literal:" + N, "proc p(array s) is 0(s[0] + s[1])\nproc main() is p(\"" + lit + "\")\n"});
      Z->push_back({"two-string-literals:" + N, "proc p(array s, array t) is 0(s[0] + t[0])\nproc main() is p(\"" + lit + "\", \"" + lit + "\")\n"});
      Z->push_back({"string-of-escapes:" + N, "proc p(array s) is 0(s[0])\nproc main() is p(\"" + rep_(n, [](int) { return std::string("\\n"); }, "") + "\")\n"});
      Z->push_back({"identifier:" + N, "var " + lit + ";\nproc main() is { " + lit + " := 1; 0(" + lit + ") }\n"});
      Z->push_back({"procedure-name:" + N, "proc " + lit + "() is skip\nproc main() is " + lit + "()\n"});
      Z->push_back({"digits:" + N, "proc main() is 0(" + std::string(n, '0') + "7)\n"});
      Z->push_back({"hex-digits:" + N, "proc main() is 0(#" + std::string(n, '0') + "F)\n"});
      Z->push_back({"comment:" + N, "|" + lit + "\nproc main() is 0(1)\n"});
      Z->push_back({"blank-run:" + N, "proc main()" + std::string(n, ' ') + "is" + std::string(n, '\n') + "0(1)\n"});
      Z->push_back({"line-with-error:" + N, "proc main() is 0(" + rep_(n, [](int) { return std::string("1"); }, " + ") + " $)\n"});
      if (n <= 4097) {
        Z->push_back({"formals:" + N, "proc p(" + rep_(n, [](int i) { return "val a" + std::to_string(i); }, ", ") + ") is 0(a0 + a" + std::to_string(n - 1) + ")\nproc main() is p(" + rep_(n, [](int i) { return std::to_string(i % 7); }, ", ") + ")\n"});
        Z->push_back({"locals:" + N, "proc main() is " + rep_(n, [](int i) { return "var v" + std::to_string(i) + ";"; }, " ") + " { v0 := 1; v" + std::to_string(n - 1) + " := 2; 0(v0 + v" + std::to_string(n - 1) + ") }\n"});
        Z->push_back({"globals:" + N, rep_(n, [](int i) { return "var g" + std::to_string(i) + ";"; }, "\n") + "\nproc main() is { g0 := 1; g" + std::to_string(n - 1) + " := 2; 0(g0 + g" + std::to_string(n - 1) + ") }\n"});
        Z->push_back({"vals:" + N, rep_(n, [](int i) { return "val k" + std::to_string(i) + " = " + (i ? "k" + std::to_string(i - 1) + " + 1" : std::string("70000")) + ";"; }, "\n") + "\nproc main() is 0(k" + std::to_string(n - 1) + ")\n"});
        Z->push_back({"procedures:" + N, "var g;\n" + rep_(n, [](int i) { return "proc q" + std::to_string(i) + "() is g := g + 1"; }, "\n") + "\nproc main() is { g := 0; q0(); q" + std::to_string(n - 1) + "(); 0(g) }\n"});
        Z->push_back({"statements:" + N, "proc main() is var x; { x := 0; " + rep_(n, [](int i) { return "x := x + " + std::to_string(i % 9); }, "; ") + "; 0(x) }\n"});
        Z->push_back({"distinct-constants:" + N, "proc main() is var x; { x := 0; " + rep_(n, [](int i) { return "x := x + " + std::to_string(70000 + i); }, "; ") + "; 0(x) }\n"});
        Z->push_back({"string-literals:" + N, "var g;\nproc p(array s) is g := g + s[0]\nproc main() is { g := 0; " + rep_(n, [](int i) { return "p(\"s" + std::to_string(i) + "\")"; }, "; ") + "; 0(g) }\n"});
        Z->push_back({"call-arguments-nested:" + N, "func f(val a) is return a + 1\nproc main() is 0(" + rep_(std::min(n, 1025), [](int) { return std::string("f("); }, "") + "0" + std::string(std::min(n, 1025), ')') + ")\n"});
        Z->push_back({"if-chain:" + N, "proc main() is var x; { x := 3; " + rep_(n, [](int i) { return "if x = " + std::to_string(i) + " then x := x + 1 else skip"; }, "; ") + "; 0(x) }\n"});
        Z->push_back({"operand-chain:" + N, "proc main() is var x; { x := 1; 0(" + rep_(n, [](int) { return std::string("x"); }, " + ") + ") }\n"});
      }
      Z->push_back({"array-size:" + N, "array a[" + N + "];\nproc main() is { a[0] := 1; a[" + std::to_string(n - 1) + "] := 2; 0(a[0] + a[" + std::to_string(n - 1) + "]) }\n"});
      Z->push_back({"local-array-size:" + N, "proc main() is array a[" + N + "]; { a[0] := 1; a[" + std::to_string(n - 1) + "] := 2; 0(a[0] + a[" + std::to_string(n - 1) + "]) }\n"});
    }
    fams.push_back({"sizes", [=] { return (uint64_t)Z->size(); }, [=](uint64_t i, std::string *d) { if (d) *d = (*Z)[i].first; return (*Z)[i].second; }, 64});
  }

  // smallest families first: the hand lists and size sweeps are never the ones a deadline cuts off
  std::stable_sort(fams.begin(), fams.end(), [](const Fam &a, const Fam &b) { return a.count() < b.count(); });
  for (auto &f : fams) {
    if (ctx.expired()) { rep.caps.push_back("family " + f.name + " not started (deadline)"); continue; }
    uint64_t n = f.count();
    phase(ctx, "family " + f.name + ": " + std::to_string(n) + " inputs");
    auto body = [&](uint64_t b, uint64_t e, const std::set<uint64_t> &skip, Stats &st, volatile uint64_t *cur) {
      g_out = ctx.scratch + "/c09." + std::to_string(getpid()) + ".out";
      for (uint64_t i = b; i < e; i++) {
        *cur = i; if (skip.count(i)) continue;
        if (ctx.expired()) { st.add("inputs_skipped_deadline"); continue; }
        std::string d; std::string src = f.make(i, &d);
        judge(src, i, f.name, st, d);
        if (i % 70001 == 11) st.sample(Obj().kv("family", f.name).kv("index", i).kv("source", src.substr(0, 160)).kv("edit", d).str(), 6);
      }
      unlink(g_out.c_str());
    };
    auto describe = [&](uint64_t i) { std::string d; std::string src = f.make(i, &d); Obj o; o.kv("family", f.name).kv("source_hex", hexs(src.substr(0, 6000))); if (src.size() <= 600) o.kv("source", src); if (!d.empty()) o.kv("edit", d); o.kv("class", srcClass(src)); return o.str(); };
    auto r = run_chunks(ctx, "f", n, f.chunks, body, describe, 60.0, (size_t)1 << 45);
    Stats merged;
    for (auto &p : r.stats.viols) {
      std::string sig = p.first;
      if (sig.rfind("crash:", 0) == 0 || sig == "hang") { JV v; std::string cls = "other"; if (jparse(p.second.json, v)) { const JV *c = v.get("case"); if (c) cls = c->str("class", "other"); } sig += ":" + cls + ":" + f.name.substr(0, f.name.find(':')); }
      auto &dst = merged.viols[sig]; uint64_t cnt = dst.count + p.second.count; if (dst.count == 0 || p.second.order < dst.order) dst = p.second; dst.sig = sig; dst.count = cnt;
    }
    r.stats.viols = merged.viols;
    rep.st.merge(r.stats);
    rep.st.add("family:" + f.name, r.complete ? n : 0);
    if (!r.complete || r.stats.c.count("inputs_skipped_deadline")) rep.caps.push_back("family " + f.name + ": incomplete");
  }
  // the built xcmp executable: semantic oddities, lexical strings <= 2 and a few format-like sources, in binary and -S mode (the catch sites in main and in runCatchExceptions print the offending line)
  if (getenv("HEX_CLI") && !ctx.expired()) {
    std::string tool = std::string(getenv("HEX_CLI")) + "/xcmp";
    std::vector<std::string> inputs = *S;
    robust::Strings L2(lexAlpha, 2);
    for (uint64_t i = 0; i < L2.total; i++) inputs.push_back(L2.make(i));
    for (const char *x : {"proc main() is 0(1 % 2)", "proc main() is 0(%d)", "proc main() is %s", "%n%n%n", "proc main() is 0(\"%s%n\")", "proc main() is p%1$s()", "val x = 5 %;", "proc main() is { x%d := 1 }"}) inputs.push_back(x);
    phase(ctx, "process level: " + std::to_string(inputs.size()) + " inputs x 2 modes through the built xcmp");
    auto body = [&](uint64_t b, uint64_t e, const std::set<uint64_t> &skip, Stats &st, volatile uint64_t *cur) {
      std::string dir = ctx.scratch + "/pl" + std::to_string(b); mkdir(dir.c_str(), 0755);
      for (uint64_t i = b; i < e; i++) {
        *cur = i; if (skip.count(i)) continue;
        for (const char *mode : {"", "-S"}) {
          std::string kind, w = judgeProcess(tool, inputs[i], dir, mode, kind);
          st.add("process_runs");
          if (!w.empty()) st.violation("process:" + kind, i, Obj().kv("family", "process").kv("mode", mode).kv("what", w).kv("source_hex", hexs(inputs[i].substr(0, 6000))).kv("source", inputs[i].substr(0, 300)).str());
        }
      }
      std::string rm = "rm -rf '" + dir + "'"; if (system(rm.c_str())) {}
    };
    auto r = run_chunks(ctx, "proc", inputs.size(), 64, body, [&](uint64_t i) { return Obj().kv("family", "process").kv("source_hex", hexs(inputs[i].substr(0, 6000))).str(); }, 120, (size_t)1 << 45);
    rep.st.merge(r.stats);
    if (!r.complete) rep.caps.push_back("process level: incomplete");
  }
  // (e) nesting depth, judged on the built executable with the repository's own flags and the default stack
  const char *cli = getenv("HEX_CLI");
  if (cli) {
    phase(ctx, "nesting depth through the built xcmp executable");
    struct N { const char *name, *open, *close, *core; };
    std::vector<N> ns = {{"paren", "(", ")", "1"}, {"neg-paren", "-(", ")", "1"}, {"not-paren", "~(", ")", "true"}, {"subscript", "a[", "]", "0"}, {"call", "f(", ")", "1"}, {"plus-chain", "1 + (", ")", "1"}};
    std::string dir = ctx.scratch + "/depth"; mkdir(dir.c_str(), 0755);
    Stats st;
    for (auto &n : ns) for (int k = 1; k <= 4096; k *= 2) for (int closed = 0; closed < 2; closed++) {
      std::string e; for (int i = 0; i < k; i++) e += n.open; e += n.core; if (closed) for (int i = 0; i < k; i++) e += n.close;
      std::string src = "array a[2]; func f(val v) is return v\nproc main() is { a[0] := 0; 0(" + e + ") }\n";
      spit(dir + "/d.x", src); unlink((dir + "/a.out").c_str());
      std::string err; int rc = runProc({std::string(cli) + "/xcmp", "d.x"}, dir, err, 120);
      st.add("depth_inputs");
      bool emitted = access((dir + "/a.out").c_str(), F_OK) == 0;
      std::string w;
      if (rc == -999) w = "hung"; else if (rc < 0) w = "died with signal " + std::to_string(-rc);
      else if (rc == 0 && !emitted) w = "status 0 without a binary"; else if (rc != 0 && (emitted || err.find("Error") == std::string::npos)) w = "non-zero status with " + std::string(emitted ? "a binary left behind" : "no diagnostic");
      if (!w.empty()) st.violation(std::string("depth:") + n.name + (rc < 0 ? ":crash" : ":contract"), k, Obj().kv("family", "depth").kv("construct", n.name).kv("depth", k).kb("closed", closed).kv("what", w).kv("source_hex", hexs(src.substr(0, 6000))).str());
    }
    for (const char *shape : {"block", "if", "while"}) for (int k = 1; k <= 4096; k *= 2) for (int closed = 0; closed < 2; closed++) {
      std::string s;
      for (int i = 0; i < k; i++) s += std::string(shape) == "block" ? "{ " : std::string(shape) == "if" ? "if x = 0 then " : "while x < 0 do ";
      s += "skip";
      if (closed) for (int i = 0; i < k; i++) s += std::string(shape) == "block" ? " }" : std::string(shape) == "if" ? " else skip" : "";
      std::string src = "var x;\nproc main() is { x := 0; " + s + " }\n";
      spit(dir + "/d.x", src); unlink((dir + "/a.out").c_str());
      std::string err; int rc = runProc({std::string(cli) + "/xcmp", "d.x"}, dir, err, 120);
      st.add("depth_inputs");
      bool emitted = access((dir + "/a.out").c_str(), F_OK) == 0;
      std::string w;
      if (rc == -999) w = "hung"; else if (rc < 0) w = "died with signal " + std::to_string(-rc);
      else if (rc == 0 && !emitted) w = "status 0 without a binary"; else if (rc != 0 && (emitted || err.find("Error") == std::string::npos)) w = "non-zero status with " + std::string(emitted ? "a binary left behind" : "no diagnostic");
      if (!w.empty()) st.violation(std::string("depth:") + shape + (rc < 0 ? ":crash" : ":contract"), k, Obj().kv("family", "depth").kv("construct", shape).kv("depth", k).kb("closed", closed).kv("what", w).str());
    }
    std::string rm = "rm -rf '" + dir + "'"; if (system(rm.c_str())) {}
    rep.st.merge(st);
  }
  auto &c = rep.st.c;
  rep.evaluations = c["inputs"] * 2 + c["depth_inputs"] + c["process_runs"]; rep.states = c["inputs"] + c["depth_inputs"]; rep.transitions = rep.evaluations; rep.validated = rep.states;
  rep.nontrivial = c["accepted"] + (uint64_t)rep.st.outcomes.size();
  rep.rule = "inputs: every byte string of length <=2; every string of length <=4 (5) over a 27-symbol lexical alphabet; every token string of length <=3 (4) over xcmp's 39 source tokens, bare and embedded "
             "in statement, expression and declaration position of a valid program; every single-token edit (delete, duplicate, swap, replace by every token, every identifier of the program and hostile "
             "literals) of the shipped tests/x programs and of ~40 generated seed programs; a list of semantic oddities (non-constant val/array length, redeclaration, wrong kind/arity, proc/func formals, "
             "invalid system calls, overflowing constants); nesting depth 1..4096 of nine recursive constructs (closed and unclosed) through the built executable; each in-process input runs under two "
             "heap/stack fill patterns in an ASan+UBSan build; distinct_nontrivial = accepted inputs + distinct diagnostics";
  rep.bounds.kv("token_string_length", (uint64_t)T->maxLen).kv("lexical_string_length", (uint64_t)L->maxLen).kv("seed_programs", (uint64_t)seeds.size());
  rep.assumptions = {"crash = signal or sanitizer abort in the forked worker; hang = no progress for 60 s", "the depth family is judged on the repository-built executable (default 8 MB stack), not on the instrumented build"};
  rep.trusted = {"ASan/UBSan of g++ 12", "src/adapters/tools.cpp"};
  return rep.finish();
}
