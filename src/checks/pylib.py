"""Shared helpers for the process-level (python) checks: evidence, known findings, replay files, bounded subprocess runs."""
import json, os, resource, subprocess, sys, time

VERIF = os.environ.get("VERIF_DIR", "/verif")


def limits():
    resource.setrlimit(resource.RLIMIT_AS, (4 << 30, 4 << 30))
    resource.setrlimit(resource.RLIMIT_CORE, (0, 0))
    resource.setrlimit(resource.RLIMIT_FSIZE, (64 << 20, 64 << 20))


def run(cmd, cwd, stdin=b"", timeout=20, env=None):
    """Returns (status, stdout, stderr); status 'timeout' on hang, negative on signal."""
    try:
        p = subprocess.run(cmd, cwd=cwd, input=stdin, stdout=subprocess.PIPE, stderr=subprocess.PIPE, timeout=timeout,
                           preexec_fn=limits, env=env)
        return p.returncode, p.stdout, p.stderr
    except subprocess.TimeoutExpired as e:
        return "timeout", e.stdout or b"", e.stderr or b""


class Report:
    def __init__(self, prop, tier):
        self.prop, self.tier = prop, tier
        self.t0 = time.time()
        self.counters = {}
        self.samples = []
        self.viols = {}  # sig -> dict(order, case, count)
        self.outcomes = set()
        self.caps = []

    def add(self, k, n=1):
        self.counters[k] = self.counters.get(k, 0) + n

    def sample(self, obj, cap=8):
        if len(self.samples) < cap:
            self.samples.append(obj)

    def violation(self, sig, order, case):
        v = self.viols.get(sig)
        if v is None or order < v["order"]:
            self.viols[sig] = {"order": order, "case": case, "count": (v["count"] if v else 0) + 1}
        else:
            v["count"] += 1

    def finish(self, *, states, transitions, validated, evaluations, nontrivial, rule, bounds, assumptions, trusted, exhaustive=True):
        known = []
        try:
            for line in open(os.path.join(VERIF, "known_findings.jsonl")):
                line = line.strip()
                if line.startswith("{"):
                    known.append(json.loads(line))
        except OSError:
            pass
        rdir = os.path.join(VERIF, "replay", self.prop)
        os.makedirs(rdir, exist_ok=True)
        unknown = 0
        lines = []
        kf = {}
        for n, (sig, v) in enumerate(sorted(self.viols.items())):
            path = os.path.join(rdir, "%d.json" % n)
            json.dump({"property": self.prop, "signature": sig, "count": v["count"], "case": v["case"]}, open(path, "w"))
            k = [x for x in known if x.get("status") == "known" and x.get("property") == self.prop and x.get("sig") == sig]
            if k:
                lines.append("KNOWN-FINDING: property=%s %s %s (%d cases, smallest: %s)" % (self.prop, sig, k[0].get("what", ""), v["count"], path))
                kf[sig] = v["count"]
            else:
                lines.append("VIOLATION property=%s replay=%s signature=%s cases=%d" % (self.prop, path, sig, v["count"]))
                unknown += 1
        cov = {"states": states, "transitions": transitions, "traces_validated_against_impl": validated, "evaluations": evaluations,
               "distinct_nontrivial": nontrivial, "rule": rule, "samples": self.samples or ["(none)"], "exhaustive": bool(exhaustive and not self.caps),
               "bounds": bounds, "counters": self.counters, "distinct_outcomes": len(self.outcomes), "known_findings": kf, "caps_hit": self.caps,
               "checker_cmd": "bin/check %s --tier %s" % (self.prop, self.tier), "trusted_base": trusted}
        ev = {"property_id": self.prop, "tier": self.tier, "seed": int(os.environ.get("VERIF_SEED", "0") or 0), "level": "model_checking", "coverage": cov,
              "assumptions": assumptions, "wall_s": round(time.time() - self.t0, 3), "violations": unknown,
              "build_s": float(os.environ.get("VERIF_BUILD_S", "0") or 0)}
        evdir = os.environ.get("HEXMC_EVIDENCE_DIR", os.path.join(VERIF, "evidence"))
        os.makedirs(evdir, exist_ok=True)
        json.dump(ev, open(os.path.join(evdir, self.prop + ".json"), "w"), indent=1)
        for l in lines:
            print(l)
        print("[%s] tier=%s evaluations=%d states=%d nontrivial=%d exhaustive=%s wall=%.1fs violations=%d" % (
            self.prop, self.tier, evaluations, states, nontrivial, cov["exhaustive"], time.time() - self.t0, unknown))
        sys.stdout.flush()
        return 1 if unknown else 0
