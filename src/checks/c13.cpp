// C13 — RTL testbench results do not depend on the power-on state.
// In-process: hextb.cpp's own load()/run() on a Verilated model whose power-on state (pc, areg, breg, oreg, the first fetched bytes) is planted
// adversarially or randomised by seed; process level: the built hextb executable with +verilator+seed+n.  One forked child per case.
#include <fcntl.h>
#include <sstream>
#include <iostream>
#include "common/mc.hpp"
#include "common/refisa.hpp"
#include "adapters/tools.hpp"
#include "adapters/tb.hpp"

using namespace mc;
using refisa::Machine; using refisa::Env;
static Ctx ctx;

struct Prog {
  std::string name, file, input; bool large = false;
  std::string expOut; uint32_t expExit = 0; size_t expConsumed = 0;
  std::vector<std::pair<uint32_t, uint32_t>> finalWrites;  // word -> final value (reference run)
  uint32_t imageWords = 0;
};
struct Plant { int mode; /*0 clean,1 outside image,2 inside image,3 random seed*/ uint32_t pc, a, b, o; uint8_t b1, b2; unsigned seed; };
static const uint32_t W0 = 5000;  // a word outside every image used here

struct CaseResult { int sig; int kind; int status; uint32_t consumed, memDiffs, firstDiff, firstGot, firstExp, outLen; char out[200]; char err[120]; };

static CaseResult runCase(const Prog &p, const Plant &pl, const std::string &binPath) {
  int fd[2]; if (pipe(fd)) harness_fail("pipe");
  fflush(stdout); fflush(stderr);
  pid_t pid = fork();
  if (pid == 0) {
    close(fd[0]);
    child_limits((size_t)3 << 30);
    std::istringstream in(p.input); std::ostringstream out, err;
    std::cin.rdbuf(in.rdbuf()); std::cout.rdbuf(out.rdbuf()); std::cerr.rdbuf(err.rdbuf());
    CaseResult r; memset(&r, 0, sizeof r);
    tb::Model m = tb::create(pl.mode == 3 ? 2 : 0, pl.seed);
    tb::load(m, binPath.c_str());
    if (pl.mode == 1) {
      uint32_t w = 0; static const uint8_t X[4] = {0, 0, 0x5A, 0xA5};
      uint32_t lane = pl.pc & 3;
      for (uint32_t l = 0; l < 4; l++) { uint8_t by = l == lane ? pl.b1 : (l == ((lane + 1) & 3) ? pl.b2 : (uint8_t)(pl.b1 ^ X[l])); w |= (uint32_t)by << (8 * l); }
      m.mem[pl.pc >> 2] = w;
      if (lane == 3) m.mem[(pl.pc >> 2) + 1] = pl.b2;
    }
    if (pl.mode == 1 || pl.mode == 2) { *m.pc = pl.pc; *m.areg = pl.a; *m.breg = pl.b; *m.oreg = pl.o; }
    std::vector<uint32_t> exp(m.mem, m.mem + m.memWords);
    for (auto &w : p.finalWrites) exp[w.first] = w.second;
    std::string e;
    r.status = tb::run(m, false, 2000000, &r.kind, &e);
    std::string o = out.str();
    size_t nl = o.find('\n'); std::string after = nl == std::string::npos ? o : o.substr(nl + 1);
    r.outLen = after.size(); memcpy(r.out, after.data(), std::min(after.size(), sizeof r.out));
    strncpy(r.err, e.c_str(), sizeof r.err - 1);
    r.consumed = in.eof() ? p.input.size() : (in.tellg() < 0 ? p.input.size() : (size_t)in.tellg());
    // istringstream: count bytes actually extracted
    { std::streambuf *sb = in.rdbuf(); r.consumed = p.input.size() - (size_t)sb->in_avail(); }
    for (size_t i = 0; i < m.memWords; i++) if (m.mem[i] != exp[i]) { if (!r.memDiffs) { r.firstDiff = i; r.firstGot = m.mem[i]; r.firstExp = exp[i]; } r.memDiffs++; }
    if (write(fd[1], &r, sizeof r) != (ssize_t)sizeof r) _exit(5);
    _exit(0);
  }
  close(fd[1]);
  CaseResult r; memset(&r, 0, sizeof r);
  // wait with timeout
  double t0 = now(); int status = 0; bool done = false;
  while (now() - t0 < 60) { pid_t w = waitpid(pid, &status, WNOHANG); if (w == pid) { done = true; break; } usleep(200); }
  if (!done) { kill(pid, SIGKILL); waitpid(pid, &status, 0); r.sig = -1; close(fd[0]); return r; }
  ssize_t n = read(fd[0], &r, sizeof r); close(fd[0]);
  if (WIFSIGNALED(status)) { memset(&r, 0, sizeof r); r.sig = WTERMSIG(status); }
  else if (n != (ssize_t)sizeof r) { memset(&r, 0, sizeof r); r.sig = 1000 + (WIFEXITED(status) ? WEXITSTATUS(status) : 0); }
  return r;
}

static std::string judge(const Prog &p, const CaseResult &r, std::string &cls) {
  if (r.sig == -1) { cls = "hang"; return "testbench did not finish within 60 s"; }
  if (r.sig) { cls = "crash"; return "testbench process died (signal/exit code " + std::to_string(r.sig) + ")"; }
  if (r.kind) { cls = "exception"; return std::string("run() threw: ") + r.err; }
  std::string out(r.out, std::min<size_t>(r.outLen, sizeof r.out));
  if (r.outLen != p.expOut.size() || out != p.expOut.substr(0, sizeof r.out)) { cls = "output"; return "stdout after the banner '" + hexs(out) + "' expected '" + hexs(p.expOut) + "'"; }
  if ((uint32_t)r.status != p.expExit) { cls = "status"; return "exit status " + std::to_string(r.status) + " expected " + std::to_string(p.expExit); }
  if (r.consumed != p.expConsumed) { cls = "consumption"; return "consumed " + std::to_string(r.consumed) + " input bytes, expected " + std::to_string(p.expConsumed); }
  if (r.memDiffs) { cls = "memory"; char b[200]; snprintf(b, sizeof b, "%u memory words differ from image + reference writes; first: word %u holds 0x%08x expected 0x%08x", r.memDiffs, r.firstDiff, r.firstGot, r.firstExp); return b; }
  return "";
}
static std::string byteClass(uint8_t b) { return (b == 0xD3) ? "SVC" : refisa::MNEM[b >> 4]; }

static int runProc(const std::vector<std::string> &argv, const std::string &cwd, const std::string &stdinPath, std::string &out, double timeout) {
  std::string outPath = cwd + "/stdout.txt";
  pid_t p = fork();
  if (p == 0) {
    if (chdir(cwd.c_str())) _exit(126);
    std::vector<char *> a; for (auto &s : argv) a.push_back((char *)s.c_str()); a.push_back(nullptr);
    if (!freopen(stdinPath.c_str(), "rb", stdin)) _exit(126);
    if (!freopen(outPath.c_str(), "wb", stdout)) _exit(126);
    if (!freopen("/dev/null", "wb", stderr)) _exit(126);
    child_limits((size_t)4 << 30);
    execv(a[0], a.data()); _exit(127);
  }
  double t0 = now(); int status = 0;
  while (true) { pid_t r = waitpid(p, &status, WNOHANG); if (r == p) break; if (now() - t0 > timeout) { kill(p, SIGKILL); waitpid(p, &status, 0); return -999; } usleep(300); }
  out = slurp(outPath);
  return WIFEXITED(status) ? WEXITSTATUS(status) : -WTERMSIG(status);
}

int main(int argc, char **argv) {
  ctx = parse_args("C13", argc, argv, 400, 4500);
  Report rep; rep.ctx = ctx;
  // ---- programs and their reference behaviour
  std::vector<Prog> progs;
  auto addX = [&](const std::string &name, const std::string &src, const std::string &input) {
    auto r = ad::xcompile(src, ad::X_BINARY, ctx.scratch + "/p.bin");
    if (r.status != 0) harness_fail("cannot compile C13 program " + name + ": " + r.err);
    Prog p; p.name = name; p.file = slurp(ctx.scratch + "/p.bin"); p.input = input; progs.push_back(p);
  };
  addX("exit7", "proc main() is 0(7)", "");
  addX("write-hi", "proc main() is { 1('h', 0); 1('i', 0); 0(3) }", "");
  addX("echo", "proc main() is 0(2(0))", "A");
  addX("echo-eof", "proc main() is 0(2(0))", "");
  addX("recursion", "func f(val n) is if n = 0 then return 1 else return n + f(n - 1) proc main() is 0(f(4))", "");
  {
    auto r = ad::assemble_text("BR start\nDATA 1000\nstart\nLDAC 5\nSTAM 50\nLDAM 50\nLDBM 1\nSTAI 2\nLDAC 0\nOPR SVC\n", ad::A_FILE, ctx.scratch + "/p.bin");
    if (r.kind) harness_fail("cannot assemble store-first program");
    Prog p; p.name = "store-first"; p.file = r.file; p.input = ""; progs.push_back(p);
  }
  {
    // uses areg and breg before writing them: only correct if reset really clears both
    auto r = ad::assemble_text("BR start\nDATA 1000\nstart\nBRZ za\nBR bad\nza\nOPR ADD\nBRZ zb\nBR bad\nzb\nOPR SUB\nBRN bad\nBRZ good\nbad\nLDAC 9\nLDBM 1\nSTAI 2\nLDAC 0\nOPR SVC\ngood\nLDAC 4\nLDBM 1\nSTAI 2\nLDAC 0\nOPR SVC\n", ad::A_FILE, ctx.scratch + "/p.bin");
    if (r.kind) harness_fail("cannot assemble regs-from-reset program");
    Prog p; p.name = "regs-from-reset"; p.file = r.file; p.input = ""; progs.push_back(p);
  }
  {
    // an image larger than 200000 bytes whose far end is read: every word of it must have been loaded, whatever the memory held before
    std::string src = "BR start\nDATA 150000\nstart\nLDAM 60010\nLDBM 1\nSTAI 2\nLDAM 30000\nLDBM 1\nSTAI 3\nLDAC 0\nOPR SVC\n"; src.reserve(700000);
    for (int i = 0; i < 60020; i++) src += i == 30000 - 6 || i == 30000 - 5 || i == 30000 - 4 ? "DATA 0\n" : "DATA 75\n";
    auto r = ad::assemble_text(src, ad::A_FILE, ctx.scratch + "/p.bin");
    if (r.kind) harness_fail("cannot assemble the large-image program");
    Prog p; p.name = "large-image"; p.file = r.file; p.input = ""; p.large = true; progs.push_back(p);
  }
  unlink((ctx.scratch + "/p.bin").c_str());
  for (auto &p : progs) {
    auto img = refisa::parseImage(p.file); p.imageWords = img.nwords;
    Machine m; Env env; env.in = p.input; m.loadWords(img.body); m.logWrites = true;
    uint64_t steps = 0;
    while (!env.exited && steps < 1000000) { if (m.classify(true) != refisa::DEFINED) harness_fail("C13 reference program " + p.name + " leaves the defined range"); m.step(env); steps++; }
    if (!env.exited) harness_fail("C13 reference program does not exit: " + p.name);
    p.expOut = env.out; p.expExit = env.exitValue; p.expConsumed = env.inPos;
    std::map<uint32_t, uint32_t> fw; for (auto &w : m.wlog) fw[w.first] = m.mem[w.first];
    p.finalWrites.assign(fw.begin(), fw.end());
  }
  std::vector<std::string> binPaths;
  for (size_t i = 0; i < progs.size(); i++) { std::string bp = ctx.scratch + "/prog" + std::to_string(i) + ".bin"; spit(bp, progs[i].file); binPaths.push_back(bp); }

  // ---- case list
  struct Case { int prog; Plant pl; };
  std::vector<Case> cases;
  std::vector<uint32_t> AS = {0, 1, 2, 3, 0x80000000u, 0xFFFFFFFFu}, OS = {0, 2, 0xFFFFFF00u};  // breg corners per program below
  auto BS = [&](const Prog &p) { return std::vector<uint32_t>{0, 2, p.finalWrites.empty() ? 1000u : p.finalWrites[0].first, 199999, 0x00200000u, 0x80000000u, 0xFFFFFFFFu}; };   // incl. values above the address width
  bool th = ctx.thorough();
  for (int pi = 0; pi < (int)progs.size(); pi++) {
    cases.push_back({pi, Plant{0, 0, 0, 0, 0, 0, 0, 0}});
    if (progs[pi].large) { for (unsigned s = 1; s <= (th ? 200u : 24u); s++) cases.push_back({pi, Plant{3, 0, 0, 0, 0, 0, 0, s}}); continue; }   // only the clean start and Verilator's randomisation
    // (a) power-on pc outside the image, first fetched bytes (b1,b2)
    std::vector<int> b2four = {0xD3, 0x22, 0x30, 0x90}, b2all; for (int b = 0; b < 256; b++) b2all.push_back(b);
    // register corners: quick 6, quick 9, thorough all 126 for program 1 (all byte pairs for 42 of them) and 18 for the others
    std::vector<std::array<uint32_t, 3>> corners;
    auto bs = BS(progs[pi]);
    if (th && pi == 1) { for (auto a : AS) for (auto b : bs) for (auto o : OS) corners.push_back({a, b, o}); }
    else if (th) { for (auto a : AS) for (auto o : OS) if (corners.size() < 18) corners.push_back({a, bs[(a * 3 + o) % bs.size()], o}); }
    else corners = {{{0, 0, 0}}, {{1, 2, 0}}, {{2, bs[2], 2}}, {{3, 199999, 0xFFFFFF00u}}, {{0x80000000u, 2, 2}}, {{1, bs[2], 0}}, {{0xFFFFFFFFu, 0x80000000u, 0}}, {{2, 0xFFFFFFFFu, 0xFFFFFF00u}}, {{1, 0x00200000u, 2}}};
    // thorough, program 1: all 65536 byte pairs for every third corner (42 of 126), the four second bytes for the others
    for (size_t cix = 0; cix < corners.size(); cix++) for (int b1 = 0; b1 < 256; b1++) for (int b2 : (th && pi == 1 && cix % 3 == 0 ? b2all : b2four)) for (uint32_t lane : {0u, 3u}) {
      auto &c = corners[cix];
      if (lane == 3 && !(b1 == 0xD3 || b2 == 0xD3 || (b1 & 0xF0) == 0x20 || (b1 & 0xF0) == 0x80) && !th) continue;
      cases.push_back({pi, Plant{1, W0 * 4 + lane, c[0], c[1], c[2], (uint8_t)b1, (uint8_t)b2, 0}});
    }
    // (b) power-on pc at every byte of the image
    for (uint32_t pc = 0; pc < progs[pi].imageWords * 4; pc++) for (size_t ci = 0; ci < corners.size() && ci < 9; ci++)
      cases.push_back({pi, Plant{2, pc, corners[ci][0], corners[ci][1], corners[ci][2], 0, 0, 0}});
    // (c) Verilator's own randomisation, in-process
    for (unsigned s = 1; s <= (th ? 3000u : 300u); s++) cases.push_back({pi, Plant{3, 0, 0, 0, 0, 0, 0, s}});
  }
  auto caseJson = [&](const Case &c) {
    Obj o; o.kv("family", c.pl.mode == 0 ? "clean" : c.pl.mode == 1 ? "planted-outside-image" : c.pl.mode == 2 ? "planted-inside-image" : "random-seed").kv("program", progs[c.prog].name).kv("input_hex", hexs(progs[c.prog].input));
    if (c.pl.mode == 1 || c.pl.mode == 2) o.kv("pc", c.pl.pc).kv("areg", c.pl.a).kv("breg", c.pl.b).kv("oreg", c.pl.o);
    if (c.pl.mode == 1) o.kv("first_byte", (int)c.pl.b1).kv("second_byte", (int)c.pl.b2);
    if (c.pl.mode == 3) o.kv("seed", c.pl.seed);
    o.kv("prog_index", c.prog).kv("mode", c.pl.mode);
    return o.str();
  };
  if (!ctx.replayPath.empty()) {
    JV v; if (!jparse(slurp(ctx.replayPath), v)) harness_fail("cannot parse replay");
    const JV *c = v.get("case"); if (c && c->get("case")) c = c->get("case"); if (!c) harness_fail("no case");
    Case cs{(int)c->num("prog_index"), Plant{(int)c->num("mode"), (uint32_t)c->num("pc"), (uint32_t)c->num("areg"), (uint32_t)c->num("breg"), (uint32_t)c->num("oreg"), (uint8_t)c->num("first_byte"), (uint8_t)c->num("second_byte"), (unsigned)c->num("seed")}};
    if (cs.prog < 0 || cs.prog >= (int)progs.size()) harness_fail("bad program index");
    auto r = runCase(progs[cs.prog], cs.pl, binPaths[cs.prog]); std::string cls; std::string w = judge(progs[cs.prog], r, cls);
    printf("replay %s => %s\n", caseJson(cs).c_str(), w.empty() ? "same as clean power-on" : w.c_str());
    if (!w.empty()) { printf("VIOLATION property=C13 replay=%s\n", ctx.replayPath.c_str()); return 1; }
    return 0;
  }
  phase(ctx, "in-process cases: " + std::to_string(cases.size()));
  auto body = [&](uint64_t b, uint64_t e, const std::set<uint64_t> &skip, Stats &st, volatile uint64_t *cur) {
    for (uint64_t i = b; i < e; i++) {
      *cur = i; if (skip.count(i)) continue;
      if (ctx.expired()) { st.add("cases_skipped_deadline"); continue; }
      const Case &c = cases[i];
      auto r = runCase(progs[c.prog], c.pl, binPaths[c.prog]);
      std::string cls; std::string w = judge(progs[c.prog], r, cls);
      st.add("runs"); st.add(c.pl.mode == 0 ? "runs_clean" : c.pl.mode == 1 ? "runs_planted_outside" : c.pl.mode == 2 ? "runs_planted_inside" : "runs_random_seed");
      if (!w.empty()) {
        std::string sig = c.pl.mode == 0 ? "clean-power-on:" + cls : c.pl.mode == 3 ? "random-seed:" + cls : (c.pl.mode == 1 ? "planted:" + byteClass(c.pl.b1) + ":" + cls : "planted-in-image:" + cls);
        st.violation(sig, i, Obj().raw("case", caseJson(c)).kv("what", w).str());
      }
      st.outcome(mix(mix(r.status, r.outLen), r.memDiffs));
      if (i % 7919 == 0) st.sample(caseJson(c), 6);
    }
  };
  // shuffle-free but interleaved chunks: cases are ordered by program; use many chunks
  auto r = run_chunks(ctx, "tb", cases.size(), 1024, body, [&](uint64_t i) { return caseJson(cases[i]); }, 120);
  rep.st.merge(r.stats);
  if (!r.complete || rep.st.c["cases_skipped_deadline"]) rep.caps.push_back("in-process cases: deadline (skipped " + std::to_string(rep.st.c["cases_skipped_deadline"]) + ")");

  // ---- process level: the built executable, +verilator+seed+n
  const char *cli = getenv("HEX_CLI");
  if (cli && !ctx.expired()) {
    unsigned N = th ? 4000 : 200;
    phase(ctx, "process level: " + std::to_string(N) + " seeds x 2 programs");
    std::vector<int> which = {1, 2};
    auto body2 = [&](uint64_t b, uint64_t e, const std::set<uint64_t> &skip, Stats &st, volatile uint64_t *cur) {
      std::string dir = ctx.scratch + "/pl" + std::to_string(b); mkdir(dir.c_str(), 0755);
      for (uint64_t i = b; i < e; i++) {
        *cur = i; if (skip.count(i)) continue;
        if (ctx.expired()) { st.add("process_skipped_deadline"); continue; }
        int pi = which[i % which.size()]; unsigned seed = 1 + i / which.size();
        spit(dir + "/in.txt", progs[pi].input);
        std::string out; int rc = runProc({std::string(cli) + "/hextb", binPaths[pi], "+verilator+seed+" + std::to_string(seed)}, dir, dir + "/in.txt", out, 60);
        st.add("process_runs");
        size_t nl = out.find('\n'); std::string after = nl == std::string::npos ? out : out.substr(nl + 1);
        std::string w;
        if (rc == -999) w = "hung"; else if (rc < 0) w = "died with signal " + std::to_string(-rc);
        else if (after != progs[pi].expOut) w = "stdout after the banner '" + hexs(after.substr(0, 64)) + "' expected '" + hexs(progs[pi].expOut) + "'";
        else if (rc != (int)(progs[pi].expExit & 0xFF)) w = "exit status " + std::to_string(rc) + " expected " + std::to_string(progs[pi].expExit & 0xFF);
        if (!w.empty()) st.violation("process-seed:" + std::string(rc < 0 ? "abnormal" : after != progs[pi].expOut ? "output" : "status"), i, Obj().kv("family", "process-seed").kv("program", progs[pi].name).kv("seed", seed).kv("what", w).str());
      }
      std::string rm = "rm -rf '" + dir + "'"; if (system(rm.c_str())) {}
    };
    auto r2 = run_chunks(ctx, "proc", (uint64_t)N * which.size(), 64, body2, [&](uint64_t i) { return Obj().kv("family", "process-seed").kv("seed", (uint64_t)(1 + i / 2)).str(); }, 120);
    rep.st.merge(r2.stats);
    if (!r2.complete || rep.st.c["process_skipped_deadline"]) rep.caps.push_back("process level: deadline");
  }
  for (auto &bp : binPaths) unlink(bp.c_str());
  auto &c = rep.st.c;
  rep.evaluations = c["runs"] + c["process_runs"]; rep.states = c["runs"]; rep.transitions = rep.evaluations; rep.validated = rep.evaluations;
  rep.nontrivial = c["runs_planted_outside"] + c["runs_planted_inside"] + c["runs_random_seed"] + c["process_runs"];
  rep.rule = "power-on states: (a) pc planted at a word outside the image holding every first byte 0..255 x second bytes {SVC, STAM 2, LDAC 0, BR 0} (thorough: all 65536 pairs for one program) x register corners "
             "(areg in {0,1,2,3,2^31,2^32-1}, breg in {0, image word, a stack word, 199999, 2^21, 2^31, 2^32-1}, oreg in {0, image word, 0xFFFFFF00}); (b) pc planted at every byte of the image; (c) Verilator's randomisation for seeds 1..N "
             "in-process and through the built hextb executable; x 6 programs (exit, write, read with/without input, recursion, store-first); each run uses hextb.cpp's own load()/run() in a fresh process; "
             "oracle: stdout after the banner, exit status, input consumption equal the reference, and the final RTL memory equals the loaded image plus exactly the reference run's writes";
  rep.bounds.kv("programs", (uint64_t)progs.size()).kv("cases", (uint64_t)cases.size());
  rep.assumptions = {"the reference behaviour is RefISA's run of the image (tied to hexsim by C02 and to the RTL by C03/C06)", "register power-on values are covered on corners, not all 2^96"};
  rep.trusted = {"src/adapters/tb.cpp (includes hextb.cpp itself)", "Verilator 5.006 scope/variable lookup"};
  return rep.finish();
}
