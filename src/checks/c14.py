#!/usr/bin/env python3
"""C14 — tool exit status and output files reflect what happened.
Exhaustive product over {hexasm,xcmp} x sources (accepted / one per rejection class) x output option spelling x argument order x pre-existing file,
plus xrun == xcmp;hexsim and status == exit value mod 256, on the executables CMake builds from the working tree."""
import concurrent.futures, hashlib, itertools, json, os, shutil, sys, struct
sys.path.insert(0, os.path.dirname(os.path.abspath(__file__)))
from pylib import Report, run

tier = "quick"
replay = None
a = sys.argv[1:]
while a:
    if a[0] == "--tier": tier = a[1]; a = a[2:]
    elif a[0] == "--replay": replay = a[1]; a = a[2:]
    else: a = a[1:]
CLI = os.environ["HEX_CLI"]
REPO = os.environ.get("HEX_REPO", "/repo")
SCR = os.environ["HEXMC_SCRATCH"]
T = {n: os.path.join(CLI, n) for n in ("hexasm", "xcmp", "xrun", "hexsim")}


def rd(p):
    return open(p, "rb").read()


ASM_ACC = {
    "exit0": "BR start\nDATA 16383\nstart\nLDAC 0\nLDBM 1\nSTAI 2\nLDAC 0\nOPR SVC\n",
    "tiny": "LDAC 1\n",
    "hello": rd(os.path.join(REPO, "tests/asm/hello.S")).decode(),
}
ASM_REJ = {
    "unrecognised-token": "LDAC $\n",
    "unknown-label": "BR foo\n",
    "bad-opr-operand": "OPR LDAC\n",
    "missing-operand": "LDAC\n",
    "unaligned-absolute-label": "LDAC 0\nb\nLDAC b\n",
    "late-error": "LDAC 1\n" * 50 + "BR nowhere\n",
}
# accepted sources whose image is empty or holds no instruction (boundary of "the source was accepted")
ASM_ACC.update({"empty-file": "", "comment-only": "# nothing here\n", "blank-lines": "\n\n", "labels-only": "a\nPROC p\nFUNC f\n", "single-data-word": "DATA 5\n", "single-opr": "OPR SVC\n"})
X_ACC = {
    "exit7": "proc main() is 0(7)",
    "hello_putval": rd(os.path.join(REPO, "tests/x/hello_putval.x")).decode(),
    "fib": rd(os.path.join(REPO, "tests/x/fib.x")).decode(),
}
X_REJ = {
    "lexical": "proc main() is 0($)",
    "syntactic": "proc main() is",
    "unknown-symbol": "proc main() is 0(x)",
    "invalid-syscall": "proc main() is 3(0)",
    "non-constant-array-length": "var n; array a[n]; proc main() is skip",
    "late-error": "proc f() is skip\n" + "proc main() is { f(); g() }",
    # errors that carry no source location (found after the front end: there is no main to branch to)
    "no-main": "proc p() is skip\n",
    "empty-source": "",
    "declarations-only": "var x;\nval k = 3;\narray a[4];\n",
    "main-is-a-variable": "var main;\nproc p() is main := 1\n",
}
for _n in sorted(os.listdir(os.path.join(REPO, "tests/asm"))):
    if _n.endswith(".S"): ASM_ACC.setdefault("shipped:" + _n, rd(os.path.join(REPO, "tests/asm", _n)).decode("latin1"))
for _n in sorted(os.listdir(os.path.join(REPO, "tests/x"))):
    if _n.endswith(".x") and b"proc main" in rd(os.path.join(REPO, "tests/x", _n)): X_ACC.setdefault("shipped:" + _n, rd(os.path.join(REPO, "tests/x", _n)).decode("latin1"))
LISTING_OPT = {"hexasm": ["--instrs", "--tokens"], "xcmp": ["-S", "--tokens", "--tree"]}
EXTRA_OPT = {"hexasm": [], "xcmp": ["--memory-info"]}


OLD = b"OLD CONTENT " * 40000
EMPTY_IMAGE_OK = ("empty-file", "comment-only", "blank-lines", "labels-only")


def complete_binary(data):
    """'' when the file is header + image + complete debug tables (string table, symbol table) with nothing missing or left over; else what is wrong"""
    if len(data) < 4:
        return "shorter than a header"
    n = struct.unpack("<I", data[:4])[0]
    p = 4 + 4 * n
    if p > len(data):
        return "image truncated"
    if p == len(data):
        return "no debug tables"
    if p + 4 > len(data):
        return "string count truncated"
    ns = struct.unpack("<I", data[p:p + 4])[0]; p += 4
    for _ in range(ns):
        q = data.find(b"\0", p)
        if q < 0:
            return "string table truncated"
        p = q + 1
    if p + 4 > len(data):
        return "symbol count truncated"
    nsym = struct.unpack("<I", data[p:p + 4])[0]; p += 4
    if p + 8 * nsym != len(data):
        return "symbol table holds %d bytes for %d symbols" % (len(data) - p, nsym)
    return ""


def cases():
    out = []
    for tool, acc, rej, ext in (("hexasm", ASM_ACC, ASM_REJ, ".S"), ("xcmp", X_ACC, X_REJ, ".x")):
        srcs = [(n, s, True) for n, s in acc.items()] + [(n, s, False) for n, s in rej.items()] + [("nonexistent-file", None, False)]
        for (name, src, ok) in srcs:
            for opt in (None, "-o", "--output"):
                for pos in (("after",) if opt is None else ("before", "after")):
                    for pre in (False, True):
                        out.append(dict(kind="compile", tool=tool, src=name, text=src, ok=ok, opt=opt, pos=pos, pre=pre, ext=ext))
            for lo in LISTING_OPT[tool]:
                out.append(dict(kind="listing", tool=tool, src=name, text=src, ok=ok, opt=lo, pos="after", pre=False, ext=ext))
            # options that add a report but still emit the binary: same status, same binary at the same place
            for extra in EXTRA_OPT[tool]:
                for opt in (None, "-o"):
                    for epos in ("first", "last"):
                        out.append(dict(kind="compile", tool=tool, src=name, text=src, ok=ok, opt=opt, pos="after", pre=False, ext=ext, extra=extra, extra_pos=epos))
    # exit values through hexsim and xrun
    for v in (0, 1, 7, 255, 256, 257, -1, -255, 65536 + 3):
        for inp in (b"", b"A"):
            out.append(dict(kind="status", src="0(%d)" % v, text="proc main() is 0(%d)" % v, value=v, stdin=inp))
    for nm, text in (("main-returns", "proc main() is skip"), ("stop", "proc main() is stop"), ("echo-exit", "proc main() is 0(2(0))"),
                     ("write-then-exit", "proc main() is { 1('h', 0); 1('i', 0); 0(3) }"), ("fib", X_ACC["fib"]),
                     ("input-sign", "proc main() is var c; { c := 2(0); if c < 0 then 0(7) else if c > 127 then 0(9) else 0(3) }"),
                     ("input-eq-255", "proc main() is var c; var n; { n := 0; c := 2(0); while ~(c = 255) do { n := n + 1; c := 2(0) }; 0(n) }")):
        for inp in ((b"\x05", b"\x0a") if nm == "fib" else (b"", b"A", b"\x05", b"\x80", b"\xc8", b"\xff", b"ab\x80c")):
            out.append(dict(kind="xrun", src=nm, text=text, stdin=inp))
    for name, text in X_REJ.items():
        out.append(dict(kind="xrun-rejected", src=name, text=text, stdin=b""))
    # every cycle limit around the length of the run: whenever the trace shows that the exit system call was executed, the status is its value
    for nm, text, v in (("exit7", "proc main() is 0(7)", 7), ("write-exit9", "proc main() is { 1('a', 0); 0(9) }", 9), ("call-exit5", "func f(val n) is return n + 2 proc main() is 0(f(3))", 5)):
        for n in range(1, 70):
            out.append(dict(kind="limit", src=nm, text=text, value=v, limit=n, stdin=b""))
    # large images: the status is the program's exit value whatever the size of the image (sizes around 200000 bytes = 50000 words, and up to the memory size)
    for words in (1000, 49990, 50000, 50001, 52008, 120000, 199000):
        out.append(dict(kind="large-asm", src="asm+%dwords" % words, words=words, value=7, stdin=b""))
    for stmts in (1000, 30000, 50000):
        out.append(dict(kind="large-x", src="x+%dstatements" % stmts, stmts=stmts, value=42, stdin=b""))
    return out


def listing(d):
    return sorted((n, hashlib.sha256(rd(os.path.join(d, n))).hexdigest()) for n in os.listdir(d) if os.path.isfile(os.path.join(d, n)))


def exec_case(i, c):
    """returns (violations[(sig, what)], info)"""
    d = os.path.join(SCR, "c%d" % i)
    shutil.rmtree(d, ignore_errors=True); os.makedirs(d)
    v = []
    info = {}
    try:
        if c["kind"] in ("compile", "listing"):
            srcname = "prog" + c["ext"]
            if c["text"] is not None:
                open(os.path.join(d, srcname), "w").write(c["text"])
            target = "a.out" if c["opt"] is None or c["kind"] == "listing" else "out.bin"
            if c["pre"]:
                open(os.path.join(d, target), "wb").write(OLD)   # larger than any binary written here: a writer that does not truncate leaves a tail
            args = [T[c["tool"]]]
            if c["kind"] == "listing":
                args += [srcname, c["opt"]]
            elif c["opt"] is None:
                args += [srcname]
            elif c["pos"] == "before":
                args += [c["opt"], target, srcname]
            else:
                args += [srcname, c["opt"], target]
            if c.get("extra"):
                args = [args[0], c["extra"]] + args[1:] if c["extra_pos"] == "first" else args + [c["extra"]]
            before = listing(d)
            rc, so, se = run(args, d)
            after = listing(d)
            info = {"rc": rc, "stderr": se.decode("latin1")[:200]}
            new = [n for n, _ in after if n not in [b[0] for b in before]]
            changed = [n for n, h in after if (n, h) not in before and n not in new]
            if rc == "timeout" or (isinstance(rc, int) and rc < 0):
                v.append(("abnormal-termination", "tool ended with %s" % rc))
            elif c["kind"] == "listing":
                # listing modes stop after an early phase, so a later-phase error need not be reached; what must hold is that
                # a printed diagnostic and a non-zero status go together, and an accepted source gives status 0
                diagnosed = b"Error" in se
                if c["ok"] and rc != 0:
                    v.append(("accepted-nonzero-status", "accepted source, option %s, exit status %s" % (c["opt"], rc)))
                if diagnosed and rc == 0:
                    v.append(("status-zero-on-error", "diagnostic printed in mode %s but exit status 0" % c["opt"]))
                if rc != 0 and not se.strip():
                    v.append(("no-diagnostic", "non-zero status in mode %s without a diagnostic" % c["opt"]))
                if new or changed:
                    v.append(("listing-mode-wrote-files", "files %s appeared/changed in a listing-only mode" % (new + changed)))
            elif c["ok"]:
                if rc != 0:
                    v.append(("accepted-nonzero-status", "accepted source but exit status %s (%s)" % (rc, info["stderr"])))
                elif not os.path.exists(os.path.join(d, target)):
                    v.append(("output-not-at-requested-name", "no file %s after a successful run; new files: %s" % (target, new)))
                else:
                    data = rd(os.path.join(d, target))
                    info["sha"] = hashlib.sha256(data).hexdigest()
                    if data == OLD or len(data) < 8:
                        v.append(("output-not-written", "file %s does not hold a binary" % target))
                    else:
                        n = struct.unpack("<I", data[:4])[0]
                        wf = complete_binary(data)
                        if 4 + 4 * n > len(data) or (n == 0 and not c.get("src", "") in EMPTY_IMAGE_OK) or wf:
                            v.append(("output-malformed", "header says %d words, file has %d bytes%s" % (n, len(data), "; " + wf if wf else "")))
                    extra = [n for n in new if n != target]
                    if extra:
                        v.append(("stray-output-file", "unexpected new files %s (requested %s)" % (extra, target)))
            else:
                if rc == 0:
                    v.append(("status-zero-on-error", "rejected source (%s) but exit status 0; stderr: %s" % (c["src"], info["stderr"])))
                if not se.strip():
                    v.append(("no-diagnostic", "rejected source but nothing on stderr"))
                if new:
                    v.append(("file-left-after-error", "new files after an error: %s" % new))
                if changed:
                    v.append(("file-clobbered-on-error", "pre-existing files changed after an error: %s" % changed))
        elif c["kind"] == "status":
            open(os.path.join(d, "p.x"), "w").write(c["text"])
            rc, so, se = run([T["xcmp"], "p.x", "-o", "p.bin"], d)
            if rc != 0:
                v.append(("accepted-nonzero-status", "xcmp failed on %s: %s" % (c["text"], se[:200])))
            else:
                want = c["value"] & 0xFF
                rc1, so1, se1 = run([T["hexsim"], "p.bin"], d, stdin=c["stdin"])
                rc2, so2, se2 = run([T["xrun"], "p.x"], d, stdin=c["stdin"])
                info = {"hexsim": rc1, "xrun": rc2, "want": want}
                if rc1 != want:
                    v.append(("hexsim-status", "hexsim exit status %s for exit value %d (want %d)" % (rc1, c["value"], want)))
                if rc2 != want:
                    v.append(("xrun-status", "xrun exit status %s for exit value %d (want %d)" % (rc2, c["value"], want)))
                if so1 != so2:
                    v.append(("xrun-output", "xrun stdout differs from hexsim's"))
        elif c["kind"] == "xrun":
            open(os.path.join(d, "p.x"), "w").write(c["text"])
            rc, so, se = run([T["xcmp"], "p.x", "-o", "p.bin"], d)
            if rc != 0:
                v.append(("accepted-nonzero-status", "xcmp failed: %s" % se[:200]))
            else:
                rc1, so1, se1 = run([T["hexsim"], "p.bin"], d, stdin=c["stdin"])
                rc2, so2, se2 = run([T["xrun"], "p.x"], d, stdin=c["stdin"])
                info = {"hexsim": rc1, "xrun": rc2, "stdout": so1.decode("latin1")[:40]}
                if rc1 != rc2:
                    v.append(("xrun-status", "xrun status %s, xcmp+hexsim status %s" % (rc2, rc1)))
                if so1 != so2:
                    v.append(("xrun-output", "xrun stdout %r, xcmp+hexsim stdout %r" % (so2[:60], so1[:60])))
        elif c["kind"] == "large-asm":
            open(os.path.join(d, "p.S"), "w").write("BR start\nDATA 199990\nstart\nLDAC 7\nLDBM 1\nSTAI 2\nLDAC 0\nOPR SVC\n" + "DATA 0\n" * c["words"])
            rc, so, se = run([T["hexasm"], "p.S", "-o", "p.bin"], d)
            if rc != 0:
                v.append(("accepted-nonzero-status", "hexasm failed on a %d-word image: %s" % (c["words"], se[:200])))
            else:
                rc1, so1, se1 = run([T["hexsim"], "p.bin"], d, stdin=b"")
                info = {"hexsim": rc1, "image_bytes": os.path.getsize(os.path.join(d, "p.bin"))}
                if rc1 != c["value"]:
                    v.append(("hexsim-status-large-image", "hexsim exit status %s for a %d-byte image that exits with %d (%s)" % (rc1, info["image_bytes"], c["value"], se1[:80])))
        elif c["kind"] == "large-x":
            open(os.path.join(d, "p.x"), "w").write("var g;\nproc filler() is { " + "g := g + 1; " * c["stmts"] + "g := 0 }\nproc main() is { g := 41; 0(g + 1) }\n")
            rc, so, se = run([T["xcmp"], "p.x", "-o", "p.bin"], d)
            if rc != 0:
                v.append(("accepted-nonzero-status", "xcmp failed on %d statements: %s" % (c["stmts"], se[:200])))
            else:
                rc1, so1, se1 = run([T["hexsim"], "p.bin"], d, stdin=b"")
                rc2, so2, se2 = run([T["xrun"], "p.x"], d, stdin=b"")
                info = {"hexsim": rc1, "xrun": rc2, "image_bytes": os.path.getsize(os.path.join(d, "p.bin"))}
                if rc1 != c["value"]:
                    v.append(("hexsim-status-large-image", "hexsim exit status %s for a %d-byte image that exits with %d (%s)" % (rc1, info["image_bytes"], c["value"], se1[:80])))
                if rc2 != c["value"]:
                    v.append(("xrun-status-large-image", "xrun exit status %s for a program of %d statements that exits with %d (%s)" % (rc2, c["stmts"], c["value"], se2[:80])))
        elif c["kind"] == "limit":
            open(os.path.join(d, "p.x"), "w").write(c["text"])
            rc, so, se = run([T["xcmp"], "p.x", "-o", "p.bin"], d)
            if rc != 0:
                v.append(("accepted-nonzero-status", "xcmp failed: %s" % se[:200]))
            else:
                for tool, args in (("hexsim", [T["hexsim"], "-t", "--max-cycles", str(c["limit"]), "p.bin"]), ("xrun", [T["xrun"], "-t", "--max-cycles", str(c["limit"]), "p.x"])):
                    rc1, so1, se1 = run(args, d, stdin=c["stdin"])
                    exited = (b"exit %d\n" % c["value"]) in so1
                    info[tool] = [rc1, exited]
                    if rc1 == "timeout" or (isinstance(rc1, int) and rc1 < 0):
                        v.append((tool + "-abnormal-under-limit", "%s ended with %s under --max-cycles %d" % (tool, rc1, c["limit"])))
                    elif exited and rc1 != (c["value"] & 0xFF):
                        v.append((tool + "-status-under-limit", "%s --max-cycles %d: the trace shows exit(%d) was executed but the status is %s (%s)" % (tool, c["limit"], c["value"], rc1, se1[:80])))
        elif c["kind"] == "xrun-rejected":
            # a good program is run first in the same directory: whatever it left behind must not be what the rejected source "runs"
            open(os.path.join(d, "good.x"), "w").write("proc main() is { 1('o', 0); 1('k', 0); 0(7) }")
            run([T["xrun"], "good.x"], d, stdin=b"")
            open(os.path.join(d, "p.x"), "w").write(c["text"])
            rc2, so2, se2 = run([T["xrun"], "p.x"], d, stdin=c["stdin"])
            info = {"xrun": rc2}
            if so2:
                v.append(("xrun-ran-something-for-a-rejected-source", "xrun wrote %r to stdout for a rejected source (%s)" % (so2[:40], c["src"])))
            if rc2 == 0:
                v.append(("xrun-status-zero-on-error", "xrun exits 0 for a rejected source (%s)" % c["src"]))
            if not se2.strip():
                v.append(("no-diagnostic", "xrun printed no diagnostic"))
            if rc2 == "timeout" or (isinstance(rc2, int) and rc2 < 0):
                v.append(("abnormal-termination", "xrun ended with %s" % rc2))
    finally:
        shutil.rmtree(d, ignore_errors=True)
    return v, info


def main():
    rep = Report("C14", tier)
    cs = cases()
    if replay:
        rc = json.load(open(replay))["case"]
        c = rc["case"]
        c["stdin"] = bytes.fromhex(c.get("stdin_hex", "")) if "stdin_hex" in c else b""
        v, info = exec_case(0, c)
        print("replay:", v, info)
        if v:
            print("VIOLATION property=C14 replay=%s" % replay)
            return 1
        return 0
    shas = {}
    with concurrent.futures.ThreadPoolExecutor(16) as ex:
        results = list(ex.map(lambda ic: exec_case(*ic), enumerate(cs)))
    for i, (c, (v, info)) in enumerate(zip(cs, results)):
        rep.add("invocations")
        rep.add("kind:" + c["kind"])
        cj = {k: (val if not isinstance(val, bytes) else None) for k, val in c.items() if k != "stdin"}
        cj["stdin_hex"] = c.get("stdin", b"").hex()
        if c["kind"] == "compile":
            rep.add("accepted" if c["ok"] else "rejected")
            if "sha" in info:
                shas.setdefault((c["tool"], c["src"]), set()).add(info["sha"])
        rep.outcomes.add(json.dumps(info, sort_keys=True))
        for sig, what in v:
            rep.violation("%s:%s" % (c.get("tool", c["kind"]), sig), i, {"case": cj, "what": what, "observed": info})
        if i % 37 == 0:
            rep.sample({"case": {k: cj[k] for k in cj if k != "text"}, "observed": info})
    for (tool, src), s in shas.items():
        rep.add("byte_identity_groups")
        if len(s) != 1:
            rep.violation("%s:output-depends-on-options" % tool, 0, {"tool": tool, "source": src, "what": "binary differs between option spellings/orders", "hashes": sorted(s)})
    n = len(cs)
    return rep.finish(states=n, transitions=n, validated=n, evaluations=n, nontrivial=n,
                      rule="full product tool x source (3 accepted + one per rejection class + missing file) x {no option, -o, --output} x {option before, after the source} x {target absent, present}, "
                           "listing-only modes, report options that still emit (--memory-info first/last), exit values {0,1,7,255,256,257,-1,-255,65539} x {no input, input}, xrun vs xcmp+hexsim (inputs with bytes >= 0x80), every --max-cycles 1..69 around three runs, images of 1000..199000 words and X programs of 1000..50000 statements whose status must be the exit value; every combination is a distinct invocation",
                      bounds={"cases": n}, assumptions=["the executables are those CMake builds from the working tree (RelWithDebInfo)", "status of a killed or hung tool counts as abnormal termination"],
                      trusted=["python3 subprocess", "cmake/ninja build of /repo"])


if __name__ == "__main__":
    sys.exit(main())
