// C15 — trace and debug symbols report what is actually executing.
// Programs of the C01 corpus that write nothing to standard output are compiled, run on the real hexsim with tracing on, and the trace is checked
// line by line against RefISA's step trace, an independent parse of the symbol table, a call-stack automaton and RefX's call sequence.
#include "common/mc.hpp"
#include "common/xgen.hpp"
#include "common/xrun.hpp"

using namespace mc;
using refisa::Machine; using refisa::Env;
static Ctx ctx;

struct TLine { long count; long pc; std::string sym; long symOff; std::string mnem; long opr; bool ok; };
static TLine parseLine(const std::string &ln) {
  TLine t{-1, -1, "", -1, "", -1, false};
  std::istringstream ss(ln); std::string a, b, c, d, e;
  if (!(ss >> a >> b >> c >> d)) return t;
  char *end;
  t.count = strtol(a.c_str(), &end, 10); if (*end) return t;
  t.pc = strtol(b.c_str(), &end, 10); if (*end) return t;
  if (c.find('+') != std::string::npos) {
    size_t p = c.rfind('+'); t.sym = c.substr(0, p); t.symOff = strtol(c.c_str() + p + 1, &end, 10); if (*end) return t;
    t.mnem = d; if (!(ss >> e)) return t; t.opr = strtol(e.c_str(), &end, 10); if (*end) return t;
  } else { t.mnem = c; t.opr = strtol(d.c_str(), &end, 10); if (*end) return t; }
  t.ok = true; return t;
}

static std::string checkTrace(const std::string &file, const std::string &input, const std::string &trace, const refx::Outcome &ref, const std::vector<std::string> &procNames, std::string &kind, Stats &st) {
  auto img = refisa::parseImage(file);
  if (!img.wellFormed || !img.hasDebug) { kind = "symbol-table-missing"; return "binary carries no well-formed symbol table"; }
  // (ii-a) every procedure/function exactly once
  { std::multiset<std::string> a(procNames.begin(), procNames.end()), b; for (auto &s : img.symbols) b.insert(s.first);
    if (a != b) { kind = "symbol-table-names"; std::string l; for (auto &s : img.symbols) l += s.first + " "; return "symbol table lists {" + l + "} but the program defines " + std::to_string(procNames.size()) + " procedures/functions"; } }
  std::map<uint32_t, std::string> byOffset; for (auto &s : img.symbols) byOffset[s.second] = s.first;
  std::map<std::string, uint32_t> offsetOf; for (auto &s : img.symbols) offsetOf[s.first] = s.second;
  // reference step trace
  Machine m; Env env; env.in = input; m.loadWords(img.body);
  std::vector<std::string> lines; { size_t p = 0; while (p < trace.size()) { size_t e = trace.find('\n', p); if (e == std::string::npos) e = trace.size(); lines.push_back(trace.substr(p, e - p)); p = e + 1; } }
  std::vector<std::string> stack; std::vector<std::string> entered;
  bool prevWasLdap = false, pendingPush = false, pendingPop = false; std::string pushName;
  uint64_t k = 0;
  for (; !env.exited; k++) {
    if (m.classify(false) != refisa::DEFINED) { kind = "harness"; return "reference left the defined range"; }
    if (k >= lines.size()) { kind = "trace-too-short"; return "trace has " + std::to_string(lines.size()) + " lines but the run has more steps"; }
    uint32_t pc = m.pc; uint8_t byte = m.fetchByte(pc);
    TLine t = parseLine(lines[k]);
    if (!t.ok) { kind = "trace-line-format"; return "cannot parse trace line " + std::to_string(k) + ": '" + lines[k].substr(0, 80) + "'"; }
    if (t.count != (long)k) { kind = "trace-count"; return "line " + std::to_string(k) + " carries count " + std::to_string(t.count); }
    if (t.pc != (long)pc) { kind = "trace-address"; return "line " + std::to_string(k) + " reports address " + std::to_string(t.pc) + ", executing " + std::to_string(pc); }
    if (t.mnem != refisa::MNEM[byte >> 4]) { kind = "trace-mnemonic"; return "line " + std::to_string(k) + " reports " + t.mnem + ", executing " + refisa::MNEM[byte >> 4]; }
    if (t.opr != (byte & 15)) { kind = "trace-operand"; return "line " + std::to_string(k) + " reports operand " + std::to_string(t.opr) + ", executing " + std::to_string(byte & 15); }
    // call-stack automaton
    if (pendingPush) {
      auto f = byOffset.find(pc);
      if (f == byOffset.end()) { kind = "symbol-offset"; return "call at step " + std::to_string(k) + " enters address " + std::to_string(pc) + " which is not the offset of any symbol"; }
      stack.push_back(f->second); entered.push_back(f->second);
      if (t.sym != f->second || t.symOff != 0) { kind = "trace-entry-label"; return "first instruction of " + f->second + " is labelled '" + t.sym + "+" + std::to_string(t.symOff) + "'"; }
      pendingPush = false;
    } else {
      if (pendingPop) { if (stack.empty()) { kind = "call-stack"; return "return with empty call stack at step " + std::to_string(k); } stack.pop_back(); pendingPop = false; }
      std::string want = stack.empty() ? "" : stack.back();
      if (t.sym != want) { kind = "trace-label"; return "line " + std::to_string(k) + " (address " + std::to_string(pc) + ") is labelled '" + t.sym + "' while executing inside '" + want + "'"; }
      if (!want.empty()) {
        if (t.symOff != (long)pc - (long)offsetOf[want]) { kind = "trace-label-offset"; return "line " + std::to_string(k) + " offset " + std::to_string(t.symOff) + " != " + std::to_string((long)pc - (long)offsetOf[want]); }
        if (t.symOff == 0) { kind = "trace-offset-zero-not-entry"; return "offset 0 of " + want + " shown at step " + std::to_string(k) + " which is not a procedure entry"; }
      }
    }
    uint8_t op = byte >> 4;
    m.step(env);
    if (op == 0x9 && prevWasLdap) pendingPush = true;                  // LDAP link ; BR callee
    if (op == 0xD && (byte & 15) == 0 && m.oreg == 0) pendingPop = true; // BRB
    if (op != 0xE && op != 0xF) prevWasLdap = op == 0x5;
  }
  st.add("trace_lines_checked", k);
  // (iv) sequence of procedure entries == call sequence of the source program
  bool same = entered == ref.callTrace;
  if (!same && ref.openOrderCalls) {  // calls in both operands of an operator may be entered in either order: compare as multisets
    auto a = entered, b = ref.callTrace; std::sort(a.begin(), a.end()); std::sort(b.begin(), b.end()); same = a == b; if (same) st.add("runs_with_open_call_order");
  }
  if (!same && ref.callTrace.size() < 4096) {
    kind = "call-sequence"; std::string a, b; for (auto &s : entered) a += s + " "; for (auto &s : ref.callTrace) b += s + " ";
    return "procedure entries in the trace: " + a.substr(0, 200) + "| call sequence of the source: " + b.substr(0, 200);
  }
  st.add("procedure_entries_checked", entered.size());
  return "";
}

static void checkProgram(xrun::Runner &R, const std::string &src, const std::string &family, uint64_t order, Stats &st, bool verbose = false) {
  auto S = xrun::searchInputs(src, 1, 2000000);
  st.add("programs");
  std::vector<xrun::RefCase> use; for (auto &c : S.kept) if (c.oc.out.empty() && c.oc.steps < 60000) use.push_back(c);
  if (use.empty()) { st.add("programs_without_silent_defined_case"); return; }
  auto cr = R.compile(src); if (cr.status != 0) { st.add("not_compiled"); return; }
  std::string file = slurp(R.binPath);
  // procedure names from an independent parse of the source
  std::vector<std::string> names; { refx::Program pg; refx::Parser P(src, pg); if (!P.program()) return; for (auto &p : pg.procs) names.push_back(p.name); }
  for (auto &c : use) {
    auto r = R.run(c.input, c.oc.steps * 60 + 20000, 0, true);
    st.add("traced_runs");
    std::string kind, w;
    if (r.kind) { kind = "exception"; w = "hexsim threw " + r.err; } else w = checkTrace(file, c.input, r.out, c.oc, names, kind, st);
    if (verbose) printf("input %s: %s\n", hexs(c.input).c_str(), w.empty() ? "trace agrees" : w.c_str());
    if (!w.empty()) { st.violation(kind + ":" + family.substr(0, family.find(':')), order, Obj().kv("family", family).kv("source", src).kv("input_hex", hexs(c.input)).kv("what", w).str()); break; }
    if (c.oc.calls >= 2) st.add("traced_runs_with_nested_or_repeated_calls");
  }
  st.add("programs_traced");
}

int main(int argc, char **argv) {
  ctx = parse_args("C15", argc, argv, 400, 1700);
  Report rep; rep.ctx = ctx;
  if (!ctx.replayPath.empty()) {
    JV v; if (!jparse(slurp(ctx.replayPath), v)) harness_fail("cannot parse replay");
    const JV *c = v.get("case"); if (c && c->get("case")) c = c->get("case"); if (!c) harness_fail("no case");
    std::string dir = ctx.scratch + "/replay"; mkdir(dir.c_str(), 0755); if (chdir(dir.c_str())) harness_fail("chdir");
    int rc = run_isolated([&] { xrun::Runner R; R.init(dir); Stats st; checkProgram(R, c->str("source"), "replay", 0, st, true); R.cleanup(); if (!st.viols.empty()) _exit(7); }, 120);
    if (rc) { printf("VIOLATION property=C15 replay=%s\n", ctx.replayPath.c_str()); return 1; }
    printf("replay: trace and symbols agree\n"); return 0;
  }
  xgen::Corpus C; C.build(ctx.thorough());
  // procedure-order / code-size family: k procedures of different sizes in every order, each called from main in a fixed order
  std::vector<std::pair<std::string, std::string>> extra;
  {
    std::vector<std::string> bodies = {"proc pa() is skip\n", "func fb(val n) is return n + 70000\n", "proc pc(val v) is var k; { k := v; g := g + k }\n", "func fd(val n) is if n = 0 then return 1 else return fd(n - 1) + 1\n"};
    std::vector<int> perm = {0, 1, 2, 3};
    do {
      for (int mainPos = 0; mainPos <= 4; mainPos++) for (int pad = 0; pad < 3; pad++) {
        std::string s = "var g;\n"; for (int i = 0; i < pad; i++) s += "val k" + std::to_string(i) + " = " + std::to_string(70001 + i) + ";\n";
        std::string mainSrc = "proc main() is { g := 0; pa(); pc(fb(1)); pc(fd(2)); 0(g" + std::string(pad ? " + k0" : "") + ") }\n";
        for (int i = 0; i < 4; i++) { if (i == mainPos) s += mainSrc; s += bodies[perm[i]]; }
        if (mainPos == 4) s += mainSrc;
        extra.push_back({"order", s});
      }
    } while (std::next_permutation(perm.begin(), perm.end()));
  }
  // symbol names of every length around typical column widths x procedure bodies long enough for 1-, 2-, 3-, 4- and 5-digit offsets
  for (int L : {1, 7, 11, 12, 13, 14, 15, 16, 17, 24, 31, 32, 33, 64}) for (int body : {1, 12, 130, 1400}) {
    std::string nm(L, 'q'); nm[0] = 'p'; if (L > 2) nm[L - 1] = 'z';
    std::string blk; for (int i = 0; i < body; i++) blk += "g := g + " + std::to_string(i % 5 + 1) + "; ";
    extra.push_back({"names", "var g;\nproc " + nm + "(val v) is { " + blk + "g := g + v }\nfunc f" + nm + "(val v) is { " + blk + "return g + v }\nproc main() is { g := 0; " + nm + "(1); g := f" + nm + "(2); " + nm + "(3); 0(g) }\n"});
  }
  // names related to each other (prefix, suffix, differing in one character or in case, one containing the other, equal to main plus a letter), in both definition orders,
  // with another name between them or not: whatever table the names are stored in must keep them apart
  {
    std::vector<std::pair<std::string, std::string>> rel = {{"show", "shown"}, {"p1", "p10"}, {"p", "pp"}, {"a", "ab"}, {"get", "forget"}, {"ab", "ba"}, {"x1", "x2"}, {"Put", "put"}, {"mai", "main2"}, {"f", "ff"},
                                                             {"abcdefgh", "abcdefgi"}, {"abcdefghijklmnop", "abcdefghijklmnopq"}, {"q_1", "q_10"}, {"t", "t0"}};
    for (auto &pr : rel) for (int order = 0; order < 2; order++) for (int between = 0; between < 2; between++) for (int mainFirst = 0; mainFirst < 2; mainFirst++) {
      std::string A = order ? pr.second : pr.first, B = order ? pr.first : pr.second;
      std::string mainSrc = "proc main() is { g := 0; " + A + "(1); g := g + f_" + B + "(2); " + B + "(3); " + A + "(4); 0(g) }\n";
      std::string src = "var g;\n" + std::string(mainFirst ? mainSrc : "") + "proc " + A + "(val v) is g := (g + v) + 1\n" + (between ? "proc zz(val v) is g := g + v\n" : "") + "proc " + B + "(val v) is g := (g + v) + 2\nfunc f_" + B + "(val v) is return v + 3\n" + (mainFirst ? "" : mainSrc);
      extra.push_back({"related-names", src});
    }
  }
  // procedures whose entry lies beyond byte 65536 / 200000 / 262144 (a never-called filler procedure of the needed size is defined first)
  for (int fill : {9000, 17000, 52000, 70000}) {
    std::string blk; blk.reserve(fill * 12); for (int i = 0; i < fill; i++) blk += "g := g + 1; ";
    extra.push_back({"far-symbols", "var g;\nproc filler() is { " + blk + "skip }\nfunc f(val n) is return n + 1\nproc h(val v) is g := g + v\nproc main() is { g := 0; h(f(1)); h(f(2)); 0(g) }\n"});
  }
  uint64_t total = C.total + extra.size();
  phase(ctx, "corpus " + std::to_string(C.total) + " + " + std::to_string(extra.size()) + " procedure-order programs");
  auto get = [&](uint64_t i, std::string &fam) { if (i < extra.size()) { fam = extra[i].first; return extra[i].second; } std::string shape; return C.make(i - extra.size(), &shape, &fam); };
  auto body = [&](uint64_t b, uint64_t e, const std::set<uint64_t> &skip, Stats &st, volatile uint64_t *cur) {
    std::string dir = ctx.scratch + "/w" + std::to_string(b); mkdir(dir.c_str(), 0755); if (chdir(dir.c_str())) exit(3);
    xrun::Runner R; R.init(dir);
    for (uint64_t i = b; i < e; i++) {
      *cur = i; if (skip.count(i)) continue;
      if (ctx.expired()) { st.add("programs_skipped_deadline"); continue; }
      std::string fam; std::string src = get(i, fam);
      checkProgram(R, src, fam, i, st);
      if (i % 9973 == 5) st.sample(Obj().kv("family", fam).kv("source", src).str(), 5);
    }
    R.cleanup(); if (chdir(ctx.scratch.c_str())) exit(3); rmdir(dir.c_str());
  };
  auto r = run_chunks(ctx, "c15", total, 2048, body, [&](uint64_t i) { std::string fam; std::string src = get(i, fam); return Obj().kv("family", fam).kv("source", src).str(); }, 120);
  rep.st.merge(r.stats);
  if (!r.complete || rep.st.c["programs_skipped_deadline"]) rep.caps.push_back("deadline: " + std::to_string(rep.st.c["programs_skipped_deadline"]) + " programs not explored");
  auto &c = rep.st.c;
  rep.evaluations = c["traced_runs"]; rep.states = c["trace_lines_checked"]; rep.transitions = c["trace_lines_checked"]; rep.validated = c["traced_runs"];
  rep.nontrivial = c["programs_traced"];
  rep.rule = "programs of the C01 corpus (each has 5..7 procedures/functions) and all 24 orders x 5 positions of main x 3 constant-pool paddings of a 4-procedure program; inputs to depth 1; only runs that "
             "write nothing to standard output (trace text is then unambiguous); every trace line is compared with RefISA's step (count, byte address, mnemonic, 4-bit operand), labels with a call-stack "
             "automaton driven by LDAP/BR and BRB, symbol offsets with the addresses calls actually enter, and the entry sequence with RefX's call sequence; distinct by construction";
  rep.bounds.kv("corpus_programs", C.total).kv("order_programs", (uint64_t)extra.size());
  rep.assumptions = {"a call is LDAP followed by BR (the compiler's calling sequence) and a return is OPR BRB", "runs longer than 20000 interpreter steps are not traced"};
  rep.trusted = {"src/common/refisa.hpp", "src/common/refx.hpp (call sequence, procedure names)"};
  return rep.finish();
}
