// C05 — every label reference assembles to the address of its label (and, compiled with -DHEXMC_C17 via c17.cpp,
// C17 — listings agree with the binary they describe, on the same corpus).
#include "common/mc.hpp"
#include <sys/wait.h>
#include "common/refisa.hpp"
#include "common/asmgen.hpp"
#include "adapters/tools.hpp"
#include "common/listing.hpp"
#ifdef HEXMC_C17
#include "common/xgen.hpp"
#define PROP "C17"
#else
#define PROP "C05"
#endif

using namespace mc;
using asmgen::Item;
static Ctx ctx;

static std::string shortClass(const std::string &w) {
  if (w.find("opcode") == 0) return "misplaced-instruction";
  if (w.find("image size") == 0) return "image-size";
  if (w.find("image ends") == 0) return "image-truncated";
  if (w.find("DATA word") == 0) return "data-word";
  if (w.find("non-zero or missing alignment") == 0) return "data-alignment";
  if (w.find("non-zero trailing") == 0) return "trailing-padding";
  if (w.find("immediate operand") == 0) return "immediate";
  if (w.find("relative reference") == 0) return "relative-reference";
  if (w.find("absolute reference to a label at byte") == 0) return "absolute-unaligned-accepted";
  if (w.find("absolute reference") == 0) return "absolute-operand";
  return "other";
}
// Features of a program used to make the signature specific to the failing shape (so that a different shape is reported separately)
static std::string shape(const std::vector<Item> &items) {
  bool fwd = false, back = false, data = false, lblBeforeData = false; int refs = 0;
  std::map<std::string, size_t> defAt;
  for (size_t i = 0; i < items.size(); i++) if (items[i].kind == 0 || items[i].kind >= 5) defAt[items[i].name] = i;
  for (size_t i = 0; i < items.size(); i++) {
    if (items[i].kind == 3) { data = true; if (i > 0 && (items[i - 1].kind == 0 || items[i - 1].kind >= 5)) lblBeforeData = true; }
    if (items[i].kind == 2) { refs++; if (defAt.count(items[i].name)) { if (defAt[items[i].name] > i) fwd = true; else back = true; } }
  }
  std::string s = "refs" + std::to_string(std::min(refs, 3));
  if (fwd) s += "+fwd"; if (back) s += "+back"; if (lblBeforeData) s += "+label-before-data"; else if (data) s += "+data";
  return s;
}

struct Checker {
  Stats &st;
  // returns true if the program was accepted and fully consistent
  void check(const std::vector<Item> &items, uint64_t order, const std::string &family, bool viaText, bool withFile) {
    int modes = ad::A_BIN;
#ifdef HEXMC_C17
    modes |= ad::A_LISTING;
#endif
    if (withFile) modes |= ad::A_FILE;
    std::string src; if (viaText) src = asmgen::render(items);
    ad::AResult r = viaText ? ad::assemble_text(src, modes, ctx.scratch + "/c05." + std::to_string(getpid()) + ".bin")
                            : ad::assemble_items(items, modes, ctx.scratch + "/c05." + std::to_string(getpid()) + ".bin");
    st.add("programs");
    auto report = [&](const std::string &cls, const std::string &what) {
      Obj o; o.kv("family", family).kv("program", asmgen::describe(items)).kv("path", viaText ? "text" : "objects").kv("what", what);
      if (items.size() <= 64) o.kv("source", asmgen::render(items));
      st.violation(cls + ":" + shape(items), order, o.str());
    };
    bool hasAbsToCode = false;
    for (size_t i = 0; i < items.size(); i++) if (items[i].kind == 2 && !items[i].relative) {
      // is the label directly before a DATA (then it is aligned in every layout)?
      bool beforeData = false;
      for (size_t j = 0; j < items.size(); j++) if ((items[j].kind == 0 || items[j].kind >= 5) && items[j].name == items[i].name) { size_t k = j + 1; while (k < items.size() && (items[k].kind == 0 || items[k].kind >= 5)) k++; beforeData = k < items.size() && items[k].kind == 3; }
      if (!beforeData) hasAbsToCode = true;
    }
    if (r.kind != 0) {
      st.add("rejected");
      if (r.kind != 1) { report("rejected-with-non-diagnostic-exception", "exception kind " + std::to_string(r.kind) + ": " + r.err); return; }
      // a diagnostic is legitimate only for an unaligned absolute reference; that is only possible when some absolute reference names a label not directly before DATA
      if (!hasAbsToCode) report("rejected-valid-program", "rejected: " + r.err);
      else st.add("rejected_possibly_unaligned_absolute");
      return;
    }
    st.add("accepted");
#ifndef HEXMC_C17
    auto w = asmgen::walk(items, r.bin);
    if (!w.ok) { report("layout:" + shortClass(w.what), w.what + " (item " + std::to_string(w.badItem) + ")"); return; }
    size_t bad = 0; std::string j = asmgen::judgeRefs(items, w, bad);
    if (!j.empty()) { report("ref:" + shortClass(j), j + " (item " + std::to_string(bad) + ")"); return; }
    if (r.headerBytes >= 0 && (size_t)r.headerBytes != r.bin.size()) { report("header-length", "header length " + std::to_string(r.headerBytes) + " bytes but the emitted image has " + std::to_string(r.bin.size())); return; }
    if (withFile) {
      auto img = refisa::parseImage(r.file);
      st.add("files_checked");
      if (!img.wellFormed || img.nwords * 4 != r.bin.size() || img.body != r.bin) { report("file-header", "header length word " + std::to_string(img.nwords) + " vs image bytes " + std::to_string(r.bin.size())); return; }
    }
    // mechanism counters (anti-vacuity)
    for (size_t i = 0; i < items.size(); i++) if (items[i].kind == 2) { st.add("refs_checked"); if (w.at[i].size >= 3) st.add("refs_3plus_bytes"); if (w.at[i].size == 2) st.add("refs_2_bytes"); if ((int32_t)w.at[i].operand < 0 && items[i].relative) st.add("refs_backward"); }
    st.outcome(fnv(r.bin));
#else
    std::string what = listing::checkAgainstImage(r.listing, r.bin);
    if (!what.empty()) { report("listing:" + listing::classOf(what), what); return; }
    st.add("listing_lines", std::count(r.listing.begin(), r.listing.end(), '\n'));
    st.outcome(fnv(r.listing));
#endif
  }
};

static std::vector<uint32_t> gapSet(int level) {
  // level 3/4: small gaps plus every size from 8 below to 1 above each boundary, so that SUMS of gaps (plus the 1..3-byte references between
  // them) also land on both sides of every boundary: needed for chains in which one reference's growth pushes another over its boundary
  if (level == 3 || level == 4) { std::vector<uint32_t> g = {0, 1, 2, 3}; for (uint32_t c : {16u, 256u}) for (int d = -8; d <= 1; d++) g.push_back(c + d); if (level == 4) for (int d = -8; d <= 1; d++) g.push_back(4096 + d); return g; }
  if (level == 5) return {0, 1, 3, 13, 14, 15, 252, 253, 254, 255};
  if (level == 6) return {0, 1, 2, 3, 12, 13, 14, 15, 16, 250, 251, 252, 253, 254};
  // boundary-straddling filler sizes: around 16, 256, 4096, 65536 in both directions (the reference itself adds 1..5 bytes)
  if (level == 0) return {0, 1, 3, 14, 15, 16, 254, 255};
  if (level == 1) return {0, 1, 2, 3, 13, 14, 15, 16, 17, 253, 254, 255, 256, 257, 4093, 4094, 4095, 4096, 4097};
  std::vector<uint32_t> g = {0, 1, 2, 3};
  for (uint32_t c : {16u, 256u, 4096u, 65536u}) for (int d = -5; d <= 2; d++) g.push_back(c + d);
  return g;
}

int main(int argc, char **argv) {
  ctx = parse_args(PROP, argc, argv, 600, 3000);
  Report rep; rep.ctx = ctx;
  if (!ctx.replayPath.empty()) {
    JV v; if (!jparse(slurp(ctx.replayPath), v)) harness_fail("cannot parse replay");
    const JV *c = v.get("case"); if (!c) harness_fail("no case");
    std::string src = c->str("source");
    if (src.empty()) { printf("replay file has no source text (program too large); description: %s\n", c->str("program").c_str()); return 0; }
    auto r = ad::assemble_text(src, ad::A_BIN | ad::A_LISTING);
    printf("source:\n%s\nstatus kind=%d err=%s\nlisting:\n%s\nimage: %s\n", src.c_str(), r.kind, r.err.c_str(), r.listing.c_str(), hexs(r.bin).c_str());
    return 0;
  }
  // walker self-test on hand-assembled images
  {
    std::vector<Item> p = {{2, 9, 0, "La", true}, {1, 3, 0, "", false}, {0, 0, 0, "La", false}, {3, 0, 0x01020304, "", false}};
    // BR La (over 1 byte LDAC 0, label aligned up to DATA at 4): BR operand = 4 - 1 = 3 -> 0x93, 0x30, pad 00 00, data
    std::string img = unhex("93300000" "04030201");
    auto w = asmgen::walk(p, img); size_t bad;
    if (!w.ok || !asmgen::judgeRefs(p, w, bad).empty() || w.labelAddr["La"] != 4) harness_fail("walker self-test 1: " + w.what);
    std::string img2 = unhex("92300000" "04030201");
    auto w2 = asmgen::walk(p, img2);
    if (!w2.ok || asmgen::judgeRefs(p, w2, bad).empty()) harness_fail("walker self-test 2 (must reject operand 2)");
  }

  struct Fam { std::string name; int maxLen, maxLabels, gapLevel; bool proc, text; };
  std::vector<Fam> fams;
  if (!ctx.thorough()) {
#ifdef HEXMC_C17
    fams = {{"len3-gaps19", 3, 2, 1, true, false}, {"len4-gaps14", 4, 3, 6, false, false}, {"len3-gaps8-text", 3, 2, 0, true, true}};   // listing generation is ~20x the cost of assembly
#else
    fams = {{"len3-gaps19", 3, 2, 1, true, false}, {"len4-gaps24", 4, 3, 3, false, false}, {"len3-gaps8-text", 3, 2, 0, true, true}};
#endif
  } else {
    fams = {{"len3-gaps36", 3, 2, 2, true, false}, {"len4-gaps34", 4, 3, 4, false, false}, {"len3-gaps19-text", 3, 2, 1, true, true}, {"len5-gaps10", 5, 3, 5, false, false}};
  }
  for (auto &f : fams) {
    if (ctx.expired()) { rep.caps.push_back("family " + f.name + " not started (deadline)"); continue; }
    asmgen::Corpus C; C.build(f.maxLen, f.maxLabels, gapSet(f.gapLevel), f.proc);
    phase(ctx, "family " + f.name + ": " + std::to_string(C.skel.size()) + " skeletons, " + std::to_string(C.total) + " programs");
    auto body = [&](uint64_t b, uint64_t e, const std::set<uint64_t> &skip, Stats &st, volatile uint64_t *cur) {
      Checker ck{st};
      for (uint64_t i = b; i < e; i++) {
        *cur = i; if (skip.count(i)) continue;
        auto items = C.make(i);
        ck.check(items, i, f.name, f.text, (i % 64) == 0);
        if (i % 100003 == 0) st.sample(Obj().kv("family", f.name).kv("index", i).kv("program", asmgen::describe(items)).str(), 4);
      }
      unlink((ctx.scratch + "/c05." + std::to_string(getpid()) + ".bin").c_str());
    };
    auto r = run_chunks(ctx, f.name, C.total, 512, body, [&](uint64_t i) { return Obj().kv("family", f.name).kv("index", i).kv("program", asmgen::describe(C.make(i))).str(); }, 60);
    rep.st.merge(r.stats);
    rep.st.add("family_" + f.name + "_programs", r.complete ? C.total : 0);
    if (!r.complete) rep.caps.push_back("family " + f.name + ": deadline (chunks " + std::to_string(r.chunksDone) + "/" + std::to_string(r.chunksTotal) + ")");
  }
  // ---- label runs: 2 or 3 labels (plain or PROC, every combination) naming the same place, in front of a DATA word or an instruction, at every alignment phase 0..3,
  // every label referenced (relative or absolute, every combination) from before or from after, with a gap of 0/1/14/15 bytes between run and references
  if (!ctx.expired()) {
    std::vector<std::vector<Item>> progs;
    static const char *NM[3] = {"La", "Lb", "Lc"};
    for (int n = 2; n <= 3; n++) for (int kinds = 0; kinds < (1 << n); kinds++) for (int refk = 0; refk < (1 << n); refk++) for (int target = 0; target < 2; target++)
      for (int refsFirst = 0; refsFirst < 2; refsFirst++) for (uint32_t phase0 : {0u, 1u, 2u, 3u}) for (uint32_t gap : {0u, 1u, 14u, 15u}) {
        if (target == 1 && refk != 0) continue;                // absolute references need an aligned target: only in front of DATA
        std::vector<Item> v;
        auto refs = [&] { for (int k = 0; k < n; k++) { bool abs = refk & (1 << k); v.push_back({2, abs ? 3 : 9, 0, NM[k], !abs}); } };
        if (refsFirst) { refs(); asmgen::addFill(v, gap); }
        asmgen::addFill(v, phase0);
        for (int k = 0; k < n; k++) v.push_back({(kinds & (1 << k)) ? 5 : 0, 0, 0, NM[k], false});
        if (target == 0) v.push_back({3, 0, 0x55667788, "", false}); else v.push_back({1, 3, 7, "", false});
        if (!refsFirst) { asmgen::addFill(v, gap); refs(); }
        progs.push_back(v);
      }
    phase(ctx, "label runs: " + std::to_string(progs.size()) + " programs");
    auto body = [&](uint64_t b, uint64_t e, const std::set<uint64_t> &skip, Stats &st, volatile uint64_t *cur) {
      Checker ck{st};
      for (uint64_t i = b; i < e; i++) { *cur = i; if (skip.count(i)) continue; ck.check(progs[i], i, "label-runs", (i % 3) == 0, (i % 8) == 0); st.add("label_run_programs"); }
      unlink((ctx.scratch + "/c05." + std::to_string(getpid()) + ".bin").c_str());
    };
    auto r = run_chunks(ctx, "runs", progs.size(), 64, body, [&](uint64_t i) { return Obj().kv("family", "label-runs").kv("program", asmgen::describe(progs[i])).str(); }, 60);
    rep.st.merge(r.stats);
    if (!r.complete) rep.caps.push_back("label runs: deadline");
  }
  // ---- distance sweep: every label-taking mnemonic, every distance in the sweep, forward and backward; absolute refs to aligned labels
  {
    std::vector<uint32_t> D;
    for (uint32_t d = 0; d <= 300; d++) D.push_back(d);
    for (uint32_t d = 4050; d <= 4130; d++) D.push_back(d);
    for (uint32_t d = 65500; d <= 65560; d++) D.push_back(d);
    if (ctx.thorough()) { for (uint32_t d = 301; d < 4050; d += 1) D.push_back(d); for (uint32_t d = 1048560; d <= 1048590; d++) D.push_back(d); }
    static const int REL[] = {5, 6, 7, 8, 9, 10, 11}, ABS[] = {0, 1, 2, 3, 4};
    struct Sw { int opc; bool rel; int dir; uint32_t d; };
    std::vector<Sw> sw;
    for (int o : REL) for (int dir : {0, 1}) for (auto d : D) sw.push_back({o, true, dir, d});
    for (int o : ABS) for (int dir : {0, 1}) for (auto d : D) sw.push_back({o, false, dir, d});
    phase(ctx, "distance sweep: " + std::to_string(sw.size()) + " programs");
    auto mk = [&](const Sw &s) {
      std::vector<Item> v;
      if (s.rel) {
        if (s.dir == 0) { v.push_back({2, s.opc, 0, "La", true}); asmgen::addFill(v, s.d); v.push_back({0, 0, 0, "La", false}); v.push_back({1, 3, 1, "", false}); }
        else { v.push_back({0, 0, 0, "La", false}); asmgen::addFill(v, s.d); v.push_back({2, s.opc, 0, "La", true}); }
      } else {
        // label directly before a DATA word at word address ~d
        if (s.dir == 0) { v.push_back({2, s.opc, 0, "La", false}); asmgen::addFill(v, s.d * 4); v.push_back({0, 0, 0, "La", false}); v.push_back({3, 0, 77, "", false}); }
        else { asmgen::addFill(v, s.d * 4); v.push_back({0, 0, 0, "La", false}); v.push_back({3, 0, 77, "", false}); v.push_back({2, s.opc, 0, "La", false}); }
      }
      return v;
    };
    auto body = [&](uint64_t b, uint64_t e, const std::set<uint64_t> &skip, Stats &st, volatile uint64_t *cur) {
      Checker ck{st};
      for (uint64_t i = b; i < e; i++) { *cur = i; if (skip.count(i)) continue; if (ctx.expired()) { st.add("sweep_skipped_deadline"); continue; } ck.check(mk(sw[i]), i, "sweep", (i % 7) == 0, (i % 16) == 0); st.add("sweep_programs"); }
      unlink((ctx.scratch + "/c05." + std::to_string(getpid()) + ".bin").c_str());
    };
    auto r = run_chunks(ctx, "sweep", sw.size(), 256, body, [&](uint64_t i) { return Obj().kv("family", "sweep").kv("program", asmgen::describe(mk(sw[i]))).str(); }, 60);
    rep.st.merge(r.stats);
    if (!r.complete || rep.st.c["sweep_skipped_deadline"]) rep.caps.push_back("sweep: deadline");
  }
  // ---- shipped assembly files through the text path
  {
    Stats st;
    for (const char *n : {"exit0.S", "exit255.S", "hello.S", "hello_procedure.S", "xhexb.S"}) {
      std::string src = slurp(ctx.repo + "/tests/asm/" + n);
      auto r = ad::assemble_text(src, ad::A_BIN | ad::A_LISTING);
      st.add("shipped_files");
      if (r.kind != 0) { st.violation(std::string("shipped-rejected:") + n, 0, Obj().kv("file", n).kv("what", r.err).str()); continue; }
#ifdef HEXMC_C17
      std::string what = listing::checkAgainstImage(r.listing, r.bin);
      if (!what.empty()) st.violation(std::string("listing:shipped:") + n, 0, Obj().kv("file", n).kv("what", what).str());
#else
      // independent re-parse of the source into items, then the same walker
      std::vector<Item> items; std::string err;
      if (!listing::parseAsmSource(src, items, err)) harness_fail(std::string("cannot parse shipped file ") + n + ": " + err);
      auto w = asmgen::walk(items, r.bin); size_t bad = 0;
      std::string j = w.ok ? asmgen::judgeRefs(items, w, bad) : w.what;
      if (!j.empty()) st.violation(std::string("shipped:") + n, 0, Obj().kv("file", n).kv("what", j).str());
      else st.add("shipped_refs_ok", std::count_if(items.begin(), items.end(), [](const Item &i) { return i.kind == 2; }));
#endif
    }
    rep.st.merge(st);
  }
#ifdef HEXMC_C17
  // ---- X programs: xcmp -S listing versus the binary xcmp emits for the same source
  if (!ctx.expired()) {
    xgen::Corpus XC; XC.build(ctx.thorough());
    std::vector<std::string> shippedX; for (const char *n : {"bubblesort.x", "div.x", "exp2.x", "fac.x", "fib.x", "hello_prints.x", "hello_putval.x", "mul.x", "mul2.x", "printhex.x", "printn.x", "strlen.x", "xhexb.x", "echo_char.x", "exit.x"}) shippedX.push_back(n);
    uint64_t totalX = XC.total + shippedX.size();
    phase(ctx, "X programs: " + std::to_string(totalX));
    auto body = [&](uint64_t b, uint64_t e, const std::set<uint64_t> &skip, Stats &st, volatile uint64_t *cur) {
      std::string out = ctx.scratch + "/c17x." + std::to_string(getpid()) + ".bin";
      for (uint64_t i = b; i < e; i++) {
        *cur = i; if (skip.count(i)) continue;
        if (ctx.expired()) { st.add("x_programs_skipped_deadline"); continue; }
        std::string fam, shape, src;
        if (i < shippedX.size()) { fam = "shipped:" + shippedX[i]; src = slurp(ctx.repo + "/tests/x/" + shippedX[i]); } else src = XC.make(i - shippedX.size(), &shape, &fam);
        auto l = ad::xcompile(src, ad::X_ASM, out); auto bn = ad::xcompile(src, ad::X_BINARY, out);
        st.add("x_programs");
        if (l.status != 0 || bn.status != 0) { st.add("x_programs_rejected"); continue; }
        auto img = refisa::parseImage(slurp(out));
        std::string what = img.wellFormed ? listing::checkAgainstImage(l.out, img.body) : "emitted binary is not a well-formed image";
        if (!what.empty()) st.violation("listing:x:" + listing::classOf(what) + ":" + fam.substr(0, fam.find(':', 3) == std::string::npos ? fam.size() : fam.find(':', 3)), i, Obj().kv("family", fam).kv("source", src.substr(0, 3000)).kv("what", what).str());
        else { st.add("x_programs_accepted"); st.add("listing_lines", std::count(l.out.begin(), l.out.end(), '\n')); }
        if (i % 20011 == 0) st.sample(Obj().kv("family", fam).kv("source", src.substr(0, 300)).str(), 3);
      }
      unlink(out.c_str());
    };
    auto r = run_chunks(ctx, "x", totalX, 1024, body, [&](uint64_t i) { return Obj().kv("family", "x").kv("index", i).str(); }, 120);
    rep.st.merge(r.stats);
    if (!r.complete || rep.st.c["x_programs_skipped_deadline"]) rep.caps.push_back("X programs: deadline");
  }
  // ---- the built executables: listing on stdout, image once into a regular file and once into a pipe (a non-seekable output): the two images must be the same bytes and agree with the listing
  if (getenv("HEX_CLI") && !ctx.expired()) {
    std::string cli = getenv("HEX_CLI"), dir = ctx.scratch + "/proc"; mkdir(dir.c_str(), 0755);
    auto capture = [&](const std::vector<std::string> &argv, std::string &out) -> int {
      int pfd[2]; if (pipe(pfd)) return -100;
      pid_t p = fork();
      if (p == 0) { if (chdir(dir.c_str())) _exit(126); dup2(pfd[1], 1); close(pfd[0]); close(pfd[1]); if (!freopen("/dev/null", "wb", stderr)) _exit(126); std::vector<char *> a; for (auto &x : argv) a.push_back((char *)x.c_str()); a.push_back(nullptr); execv(a[0], a.data()); _exit(127); }
      close(pfd[1]); out.clear(); char buf[65536]; ssize_t n; while ((n = read(pfd[0], buf, sizeof buf)) > 0) out.append(buf, n); close(pfd[0]);
      int status = 0; waitpid(p, &status, 0); return WIFEXITED(status) ? WEXITSTATUS(status) : -WTERMSIG(status);
    };
    struct PF { std::string name, path; bool isAsm; };
    std::vector<PF> files;
    for (const char *n : {"exit0.S", "exit255.S", "hello.S", "hello_procedure.S", "xhexb.S"}) files.push_back({n, ctx.repo + "/tests/asm/" + n, true});
    for (const char *n : {"bubblesort.x", "fib.x", "hello_prints.x", "hello_putval.x", "mul2.x", "printhex.x", "strlen.x", "exit.x", "xhexb.x"}) files.push_back({n, ctx.repo + "/tests/x/" + n, false});
    { xgen::Corpus XC; XC.build(false); int k = 0; for (uint64_t i = 0; i < XC.total; i += XC.total / 24 + 1) { std::string p = dir + "/gen" + std::to_string(k++) + ".x"; spit(p, XC.make(i, nullptr, nullptr)); files.push_back({"corpus", p, false}); } }
    Stats st;
    for (auto &f : files) {
      std::string tool = cli + (f.isAsm ? "/hexasm" : "/xcmp"), lst, piped, dummy;
      int r1 = capture({tool, f.path, f.isAsm ? "--instrs" : "-S"}, lst);
      unlink((dir + "/o.bin").c_str());
      int r2 = capture({tool, f.path, "-o", "o.bin"}, dummy);
      int r3 = capture({tool, f.path, "-o", "/dev/stdout"}, piped);
      st.add("process_files");
      if (r1 != 0 || r2 != 0) { st.add("process_files_rejected"); continue; }
      std::string file = slurp(dir + "/o.bin");
      auto viol = [&](const std::string &k, const std::string &w) { st.violation("process:" + k, 0, Obj().kv("family", "process").kv("file", f.name).kv("source", slurp(f.path).substr(0, 2000)).kv("what", w).str()); };
      if (r3 != 0) viol("pipe-status", "writing the image to a pipe ends with status " + std::to_string(r3));
      else if (piped != file) viol("pipe-image-differs", "the image written to a pipe (" + std::to_string(piped.size()) + " bytes) differs from the image written to a regular file (" + std::to_string(file.size()) + " bytes)");
      auto img = refisa::parseImage(file);
      std::string what = img.wellFormed ? listing::checkAgainstImage(lst, img.body) : "emitted binary is not a well-formed image";
      if (!what.empty()) viol("listing:" + listing::classOf(what), what);
      if (r3 == 0) { auto pimg = refisa::parseImage(piped); std::string w2 = pimg.wellFormed ? listing::checkAgainstImage(lst, pimg.body) : "piped binary is not a well-formed image"; if (!w2.empty()) viol("listing-vs-piped-image:" + listing::classOf(w2), w2); }
      st.add("process_files_checked");
    }
    std::string rm = "rm -rf '" + dir + "'"; if (system(rm.c_str())) {}
    rep.st.merge(st);
  }
#endif
  auto &c = rep.st.c;
  rep.evaluations = c["programs"] + c["shipped_files"] + c["x_programs"] + c["process_files"];   // label-run and sweep programs are counted in "programs" by the checker
  rep.states = rep.evaluations; rep.transitions = c["refs_checked"] + c["listing_lines"] + rep.evaluations; rep.validated = c["accepted"];
  rep.nontrivial = c["accepted"] + c["x_programs_accepted"];
  rep.rule = "programs = every sequence of <=N structural items over {label def, PROC, relative ref (BR), absolute ref (LDAC), DATA} with canonical label numbering, every "
             "referenced label defined once and every defined label referenced, x every assignment of boundary-straddling filler sizes to the gaps; plus a distance sweep for all 12 "
             "label-taking mnemonics in both directions and the shipped .S files; distinct by construction; non-trivial = accepted by the assembler and walked end to end";
  rep.bounds.kv("families", (uint64_t)fams.size());
  for (auto &f : fams) rep.bounds.raw(f.name, Obj().kv("max_items", f.maxLen).kv("labels", f.maxLabels).kv("gap_values", (uint64_t)gapSet(f.gapLevel).size()).kb("text_path", f.text).str());
  rep.assumptions = {"a rejection is counted as legitimate whenever the program contains an absolute reference to a label that is not directly before DATA (its alignment depends on the assembler's own layout)",
                     "any self-consistent layout is accepted; minimal encodings are not required"};
  rep.trusted = {"src/common/asmgen.hpp walker (self-tested on hand-assembled images)", "src/adapters/tools.cpp"};
  return rep.finish();
}
