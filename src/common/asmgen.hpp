// Assembly program corpus (index-addressable) and the independent image walker used by C05, C17, C10, C15.
#pragma once
#include <cstdint>
#include <map>
#include <string>
#include <vector>
#include "adapters/tools.hpp"
#include "common/refisa.hpp"

namespace asmgen {

using Item = ad::Item;  // kind 0 label, 1 imm instr, 2 label-ref instr, 3 DATA, 4 OPR, 5 PROC, 6 FUNC

inline std::string render(const std::vector<Item> &items) {
  static const char *OPR[4] = {"BRB", "ADD", "SUB", "SVC"};
  std::string s;
  for (auto &it : items) {
    switch (it.kind) {
    case 0: s += it.name + "\n"; break;
    case 1: s += std::string(refisa::MNEM[it.opc]) + " " + std::to_string(it.value) + "\n"; break;
    case 2: s += std::string(refisa::MNEM[it.opc]) + " " + it.name + "\n"; break;
    case 3: s += "DATA " + std::to_string(it.value) + "\n"; break;
    case 4: s += std::string("OPR ") + OPR[it.opc & 3] + "\n"; break;
    case 5: s += "PROC " + it.name + "\n"; break;
    case 6: s += "FUNC " + it.name + "\n"; break;
    }
  }
  return s;
}
// compact description (fillers collapsed) for samples/replay
inline std::string describe(const std::vector<Item> &items) {
  std::string s; size_t i = 0;
  while (i < items.size()) {
    auto &it = items[i];
    if (it.kind == 1 && it.opc == 3 && (it.value == 0 || it.value == 0x7FFFFFFF)) {
      size_t bytes = 0;
      while (i < items.size() && items[i].kind == 1 && items[i].opc == 3 && (items[i].value == 0 || items[i].value == 0x7FFFFFFF)) { bytes += items[i].value ? 8 : 1; i++; }
      s += "fill(" + std::to_string(bytes) + "); ";
      continue;
    }
    switch (it.kind) {
    case 0: s += it.name + ": "; break;
    case 1: s += std::string(refisa::MNEM[it.opc]) + " " + std::to_string(it.value) + "; "; break;
    case 2: s += std::string(refisa::MNEM[it.opc]) + " " + it.name + "; "; break;
    case 3: s += "DATA " + std::to_string(it.value) + "; "; break;
    case 4: s += "OPR " + std::to_string(it.opc) + "; "; break;
    case 5: s += "PROC " + it.name + "; "; break;
    case 6: s += "FUNC " + it.name + "; "; break;
    }
    i++;
  }
  return s;
}
inline void addFill(std::vector<Item> &v, uint32_t bytes) {
  for (uint32_t i = 0; i < bytes / 8; i++) v.push_back({1, 3, 0x7FFFFFFF, "", false});  // LDAC 0x7FFFFFFF: 8 bytes
  for (uint32_t i = 0; i < bytes % 8; i++) v.push_back({1, 3, 0, "", false});           // LDAC 0: 1 byte
}

// ------------------------------------------------------------------------------------------------ walker
struct Placed { uint32_t offset = 0, size = 0; bool emitted = false; uint32_t operand = 0; };
struct Walk {
  bool ok = true; std::string what; size_t badItem = 0;
  std::vector<Placed> at;                       // per item
  std::map<std::string, uint32_t> labelAddr;    // last definition wins is NOT assumed: duplicates make the walk fail
  uint32_t end = 0;                             // offset after the last emitted byte (before trailing padding)
};
// Walk `image` (emitProgramBin bytes) in source order.  Checks contiguity, DATA alignment/values, opcode and (for immediates) operand
// of every instruction, zero padding, image size; collects label addresses and reference operands for the caller to judge.
inline Walk walk(const std::vector<Item> &items, const std::string &image) {
  Walk w; w.at.resize(items.size());
  uint32_t pos = 0;
  std::vector<size_t> pending;  // label items waiting for the address of the next emitted thing
  auto fail = [&](size_t i, const std::string &m) { if (w.ok) { w.ok = false; w.what = m; w.badItem = i; } };
  auto settle = [&](uint32_t addr) {
    for (auto li : pending) {
      if (w.labelAddr.count(items[li].name)) fail(li, "duplicate label in generated program");
      w.labelAddr[items[li].name] = addr; w.at[li].offset = addr; w.at[li].size = 0; w.at[li].emitted = true;
    }
    pending.clear();
  };
  for (size_t i = 0; i < items.size() && w.ok; i++) {
    const Item &it = items[i];
    if (it.kind == 0 || it.kind == 5 || it.kind == 6) { pending.push_back(i); continue; }
    if (it.kind == 3) {
      while (pos & 3) { if (pos >= image.size() || image[pos] != 0) { fail(i, "non-zero or missing alignment padding before DATA"); break; } pos++; }
      if (!w.ok) break;
      settle(pos);
      if (pos + 4 > image.size()) { fail(i, "image ends inside DATA"); break; }
      uint32_t v = (uint8_t)image[pos] | ((uint8_t)image[pos + 1] << 8) | ((uint8_t)image[pos + 2] << 16) | ((uint32_t)(uint8_t)image[pos + 3] << 24);
      if (v != (uint32_t)it.value) { fail(i, "DATA word differs"); break; }
      w.at[i] = {pos, 4, true, v}; pos += 4;
      continue;
    }
    // instruction
    settle(pos);
    uint32_t o = 0, start = pos; int op = -1;
    while (true) {
      if (pos >= image.size()) { fail(i, "image ends inside instruction"); break; }
      uint8_t b = image[pos++]; o |= b & 15; int c = b >> 4;
      if (c == 0xE) { o <<= 4; continue; }
      if (c == 0xF) { o = 0xFFFFFF00u | (o << 4); continue; }
      op = c; break;
    }
    if (!w.ok) break;
    if (pos - start > 8) { fail(i, "instruction longer than 8 bytes"); break; }
    int want = it.kind == 4 ? 0xD : it.opc;
    if (op != want) { fail(i, "opcode " + std::to_string(op) + " where " + std::to_string(want) + " expected at offset " + std::to_string(start)); break; }
    if (it.kind == 1 && o != (uint32_t)it.value) { fail(i, "immediate operand differs"); break; }
    if (it.kind == 4 && o != (uint32_t)(it.opc & 3)) { fail(i, "OPR operand differs"); break; }
    w.at[i] = {start, pos - start, true, o};
  }
  if (w.ok) {
    settle(pos); w.end = pos;
    uint32_t padded = (pos + 3) & ~3u;
    if (image.size() != padded) fail(items.size(), "image size " + std::to_string(image.size()) + " != " + std::to_string(padded) + " (items laid end to end, padded to a word)");
    else for (uint32_t q = pos; q < image.size(); q++) if (image[q] != 0) fail(items.size(), "non-zero trailing padding");
  }
  return w;
}
// Judge every label reference of a walked program.  Returns "" or a description; sets item index.
inline std::string judgeRefs(const std::vector<Item> &items, const Walk &w, size_t &bad) {
  for (size_t i = 0; i < items.size(); i++) {
    if (items[i].kind != 2) continue;
    auto f = w.labelAddr.find(items[i].name);
    if (f == w.labelAddr.end()) { bad = i; return "reference to undefined label assembled"; }
    uint32_t addr = f->second, after = w.at[i].offset + w.at[i].size, o = w.at[i].operand;
    if (items[i].relative) {
      if ((uint32_t)(after + o) != addr) { bad = i; return "relative reference: end of instruction " + std::to_string(after) + " + operand " + std::to_string((int32_t)o) + " != label address " + std::to_string(addr); }
    } else {
      if (addr & 3) { bad = i; return "absolute reference to a label at byte " + std::to_string(addr) + " (not word aligned) was assembled (operand " + std::to_string(o) + ") instead of rejected"; }
      if (o != addr / 4) { bad = i; return "absolute reference: operand " + std::to_string(o) + " != label word address " + std::to_string(addr / 4); }
    }
  }
  return "";
}

// ------------------------------------------------------------------------------------------------ corpus
// Structural items: D<l> label def, R<l> relative ref, A<l> absolute ref, W DATA, P<l> PROC def; gaps (fillers) between them.
struct SItem { char k; int l; };
struct Corpus {
  std::vector<std::vector<SItem>> skel;
  std::vector<uint32_t> gaps;      // gap sizes between structural items
  std::vector<uint32_t> gaps0 = {0, 1, 2, 3};  // gap before the first item (alignment phase)
  std::vector<uint64_t> prefix;    // prefix sums of program counts per skeleton
  uint64_t total = 0;
  int relOpc = 9, absOpc = 3;

  static void gen(std::vector<std::vector<SItem>> &out, std::vector<SItem> &cur, int maxLen, int maxLabels, int nextLabel) {
    if (!cur.empty()) {
      // valid iff each referenced label is defined exactly once, each defined label is referenced, at least one reference
      int def[4] = {0}, ref[4] = {0}; int nref = 0;
      for (auto &s : cur) { if (s.k == 'D' || s.k == 'P') def[s.l]++; if (s.k == 'R' || s.k == 'A') { ref[s.l]++; nref++; } }
      bool ok = nref > 0;
      for (int l = 0; l < nextLabel; l++) if (def[l] != 1 || ref[l] == 0) ok = false;
      if (ok) out.push_back(cur);
    }
    if ((int)cur.size() >= maxLen) return;
    for (char k : {'D', 'R', 'A', 'W', 'P'}) {
      if (k == 'W') { cur.push_back({'W', 0}); gen(out, cur, maxLen, maxLabels, nextLabel); cur.pop_back(); continue; }
      for (int l = 0; l <= nextLabel && l < maxLabels; l++) {
        if (k == 'D' || k == 'P') { bool dup = false; for (auto &s : cur) if ((s.k == 'D' || s.k == 'P') && s.l == l) dup = true; if (dup) continue; }
        cur.push_back({k, l});
        gen(out, cur, maxLen, maxLabels, std::max(nextLabel, l + 1));
        cur.pop_back();
      }
    }
  }
  void build(int maxLen, int maxLabels, const std::vector<uint32_t> &g, bool withProc) {
    std::vector<SItem> cur; skel.clear();
    gen(skel, cur, maxLen, maxLabels, 0);
    if (!withProc) { std::vector<std::vector<SItem>> f; for (auto &s : skel) { bool p = false; for (auto &x : s) if (x.k == 'P') p = true; if (!p) f.push_back(s); } skel.swap(f); }
    gaps = g; prefix.assign(1, 0); total = 0;
    for (auto &s : skel) { uint64_t n = gaps0.size(); for (size_t i = 1; i < s.size(); i++) n *= gaps.size(); total += n; prefix.push_back(total); }
  }
  std::vector<Item> make(uint64_t idx) const {
    size_t si = std::upper_bound(prefix.begin(), prefix.end(), idx) - prefix.begin() - 1;
    uint64_t r = idx - prefix[si];
    const auto &s = skel[si];
    std::vector<Item> v;
    static const char *NAMES[4] = {"La", "Lb", "Lc", "Ld"};
    for (size_t i = 0; i < s.size(); i++) {
      uint32_t g;
      if (i == 0) { g = gaps0[r % gaps0.size()]; r /= gaps0.size(); } else { g = gaps[r % gaps.size()]; r /= gaps.size(); }
      addFill(v, g);
      switch (s[i].k) {
      case 'D': v.push_back({0, 0, 0, NAMES[s[i].l], false}); break;
      case 'P': v.push_back({5, 0, 0, NAMES[s[i].l], false}); break;
      case 'R': v.push_back({2, relOpc, 0, NAMES[s[i].l], true}); break;
      case 'A': v.push_back({2, absOpc, 0, NAMES[s[i].l], false}); break;
      case 'W': v.push_back({3, 0, (int32_t)(0x11223344 + (int)i * 0x01010101), "", false}); break;
      }
    }
    return v;
  }
};

}  // namespace asmgen
