// Shared driver for the X-program properties: input search against RefX, compile through the real xcmp driver, run on the real hexsim.
#pragma once
#include <dirent.h>
#include "adapters/tools.hpp"
#include "common/mc.hpp"
#include "common/refisa.hpp"
#include "common/refx.hpp"
#include "common/simh.hpp"

namespace xrun {

static const std::vector<unsigned char> INPUT_ALPHA = {0x00, 0x01, '0', 'A', 0x7F, 0x80, 0xFF};

struct RefCase { std::string input; refx::Outcome oc; };
struct InputSearch { std::vector<RefCase> kept; uint64_t undefined = 0, unsupported = 0, budget = 0, syntax = 0, capped = 0, runs = 0; std::string firstReason; };

// Explicit-state search over the environment's answers to `read`: a run that reads past the end of its input (answer: 255) is a case in its own
// right and is also expanded with every next byte of the alphabet.  Depth-capped.
inline InputSearch searchInputs(const std::string &src, int maxLen = 3, uint64_t stepLimit = 200000, int depthLimit = 2000) {
  InputSearch S;
  std::vector<std::string> frontier = {""};
  while (!frontier.empty()) {
    std::vector<std::string> next;
    for (auto &w : frontier) {
      refx::Outcome oc = refx::run(src, w, stepLimit, depthLimit); S.runs++;
      bool expand = oc.readPastEnd;
      switch (oc.status) {
      case refx::Outcome::OK: S.kept.push_back({w, oc}); break;
      case refx::Outcome::UNDEFINED: S.undefined++; if (S.firstReason.empty()) S.firstReason = oc.reason; break;
      case refx::Outcome::UNSUPPORTED: S.unsupported++; if (S.firstReason.empty()) S.firstReason = oc.reason; expand = false; break;
      case refx::Outcome::BUDGET: S.budget++; break;
      case refx::Outcome::SYNTAX: S.syntax++; if (S.firstReason.empty()) S.firstReason = oc.reason; expand = false; break;
      }
      if (expand) { if ((int)w.size() < maxLen) for (auto c : INPUT_ALPHA) next.push_back(w + (char)c); else S.capped++; }
    }
    frontier.swap(next);
  }
  return S;
}

struct ImplRun { int kind = 0; int32_t rv = 0; std::string out, err; size_t consumed = 0; bool hitCycleCap = false; uint64_t cycles = 0; };

struct Runner {
  simh::Sim sim; std::string binPath; std::string dir;
  void init(const std::string &workDir) { dir = workDir; binPath = workDir + "/x.bin"; }
  ad::XResult compile(const std::string &src) { unlink(binPath.c_str()); return ad::xcompile(src, ad::X_BINARY, binPath); }
  // background: value planted into every word above the image before the run (0 = leave as constructed)
  ImplRun run(const std::string &input, uint64_t maxCycles, uint32_t background = 0, bool tracing = false) {
    ImplRun r;
    sim.create(-1, maxCycles, false);
    ad::sim_load(sim.v, binPath.c_str());
    if (background) {
      // words not covered by the image: the image length is the first word of the file
      uint32_t n = 0; { FILE *f = fopen(binPath.c_str(), "rb"); if (f) { if (fread(&n, 4, 1, f) != 1) n = 0; fclose(f); } }
      for (uint32_t i = n; i < refisa::MEM_WORDS; i++) sim.v.mem[i] = background;
    }
    sim.setInput(input);
    if (tracing) ad::sim_set_tracing(sim.v, true);
    r.rv = ad::sim_run(sim.v, &r.kind, &r.err);
    r.out = sim.ob.data; r.consumed = sim.ib.consumed();
    r.cycles = *sim.v.cycles;
    r.hitCycleCap = *sim.v.running && r.kind == 0;
    return r;
  }
  // flushes and collects simout<n> files written in the working directory
  void collectFiles(std::string files[8]) {
    sim.destroy();
    for (int n = 0; n < 8; n++) { std::string p = dir + "/simout" + std::to_string(n); files[n] = mc::slurp(p); unlink(p.c_str()); }
  }
  void cleanup() { sim.destroy(); unlink(binPath.c_str()); for (int n = 0; n < 8; n++) unlink((dir + "/simout" + std::to_string(n)).c_str()); }
};

// compares an implementation run with the reference outcome; "" if equal
inline std::string compare(const refx::Outcome &ref, const ImplRun &r, std::string &kind) {
  if (r.kind) { kind = "exception"; return "hexsim threw: " + r.err; }
  if (r.hitCycleCap) { kind = "no-termination"; return "still running after " + std::to_string(r.cycles) + " cycles (reference: " + std::to_string(ref.steps) + " interpreter steps)"; }
  if (r.out != ref.out) { kind = "output"; return "stdout '" + mc::hexs(r.out.substr(0, 64)) + "' expected '" + mc::hexs(ref.out.substr(0, 64)) + "'"; }
  if (r.rv != ref.exitValue) { kind = "exit-value"; return "exit value " + std::to_string(r.rv) + " expected " + std::to_string(ref.exitValue); }
  if (r.consumed != ref.consumed) { kind = "consumption"; return "consumed " + std::to_string(r.consumed) + " input bytes, expected " + std::to_string(ref.consumed); }
  return "";
}

}  // namespace xrun
