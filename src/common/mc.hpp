// hexmc explorer core: JSON, statistics, fork-isolated chunked enumeration with crash/hang capture,
// determinism guard, evidence + replay + known-findings handling.  No repository headers here.
#pragma once
#include <algorithm>
#include <chrono>
#include <csignal>
#include <cstdint>
#include <cstdio>
#include <cstdlib>
#include <cstring>
#include <fstream>
#include <functional>
#include <memory>
#include <map>
#include <set>
#include <sstream>
#include <string>
#include <vector>
#include <pthread.h>
#include <sys/mman.h>
#include <sys/resource.h>
#include <sys/stat.h>
#include <sys/wait.h>
#include <unistd.h>

namespace mc {

// ------------------------------------------------------------------ time
inline double now() {
  return std::chrono::duration<double>(std::chrono::steady_clock::now().time_since_epoch()).count();
}

// ------------------------------------------------------------------ JSON (write)
inline std::string jstr(const std::string &s) {
  std::string o = "\"";
  for (unsigned char c : s) {
    switch (c) {
    case '"': o += "\\\""; break;
    case '\\': o += "\\\\"; break;
    case '\n': o += "\\n"; break;
    case '\r': o += "\\r"; break;
    case '\t': o += "\\t"; break;
    default:
      if (c < 0x20 || c >= 0x7f) { char b[8]; snprintf(b, sizeof b, "\\u%04x", c); o += b; }
      else o += (char)c;
    }
  }
  return o + "\"";
}
inline std::string hexs(const std::string &bytes) {
  static const char *d = "0123456789abcdef";
  std::string o;
  for (unsigned char c : bytes) { o += d[c >> 4]; o += d[c & 15]; }
  return o;
}
inline std::string unhex(const std::string &h) {
  std::string o;
  auto v = [](char c) { return c <= '9' ? c - '0' : (c | 32) - 'a' + 10; };
  for (size_t i = 0; i + 1 < h.size(); i += 2) o += (char)(v(h[i]) * 16 + v(h[i + 1]));
  return o;
}
struct Obj {  // JSON object builder
  std::string s;
  bool first = true;
  Obj &raw(const std::string &k, const std::string &v) {
    s += (first ? "" : ","); first = false;
    s += jstr(k) + ":" + v; return *this;
  }
  Obj &kv(const std::string &k, const std::string &v) { return raw(k, jstr(v)); }
  Obj &kv(const std::string &k, const char *v) { return raw(k, jstr(v)); }
  Obj &kv(const std::string &k, int64_t v) { return raw(k, std::to_string(v)); }
  Obj &kv(const std::string &k, uint64_t v) { return raw(k, std::to_string(v)); }
  Obj &kv(const std::string &k, int v) { return raw(k, std::to_string(v)); }
  Obj &kv(const std::string &k, unsigned v) { return raw(k, std::to_string(v)); }
  Obj &kv(const std::string &k, double v) { char b[64]; snprintf(b, sizeof b, "%.3f", v); return raw(k, b); }
  Obj &kb(const std::string &k, bool v) { return raw(k, v ? "true" : "false"); }
  std::string str() const { return "{" + s + "}"; }
};
inline std::string jarr(const std::vector<std::string> &raws) {
  std::string o = "[";
  for (size_t i = 0; i < raws.size(); i++) o += (i ? "," : "") + raws[i];
  return o + "]";
}
inline std::string jarrs(const std::vector<std::string> &strs) {
  std::vector<std::string> r;
  for (auto &s : strs) r.push_back(jstr(s));
  return jarr(r);
}

// ------------------------------------------------------------------ JSON (read, minimal)
struct JV {
  enum T { NUL, BOOL, NUM, STR, ARR, OBJ } t = NUL;
  bool b = false; double n = 0; std::string s;
  std::vector<JV> a; std::vector<std::pair<std::string, JV>> o;
  const JV *get(const std::string &k) const {
    for (auto &p : o) if (p.first == k) return &p.second;
    return nullptr;
  }
  std::string str(const std::string &k, const std::string &d = "") const { auto v = get(k); return v && v->t == STR ? v->s : d; }
  int64_t num(const std::string &k, int64_t d = 0) const { auto v = get(k); return v && v->t == NUM ? (int64_t)v->n : d; }
};
struct JParser {
  const std::string &s; size_t p = 0; bool ok = true;
  JParser(const std::string &s) : s(s) {}
  void ws() { while (p < s.size() && isspace((unsigned char)s[p])) p++; }
  JV parse() {
    ws(); JV v;
    if (p >= s.size()) { ok = false; return v; }
    char c = s[p];
    if (c == '{') {
      v.t = JV::OBJ; p++; ws();
      if (p < s.size() && s[p] == '}') { p++; return v; }
      while (ok) {
        ws(); JV k = parse(); ws();
        if (p >= s.size() || s[p] != ':') { ok = false; break; }
        p++; JV val = parse(); v.o.push_back({k.s, val}); ws();
        if (p < s.size() && s[p] == ',') { p++; continue; }
        if (p < s.size() && s[p] == '}') { p++; break; }
        ok = false;
      }
    } else if (c == '[') {
      v.t = JV::ARR; p++; ws();
      if (p < s.size() && s[p] == ']') { p++; return v; }
      while (ok) {
        v.a.push_back(parse()); ws();
        if (p < s.size() && s[p] == ',') { p++; continue; }
        if (p < s.size() && s[p] == ']') { p++; break; }
        ok = false;
      }
    } else if (c == '"') {
      v.t = JV::STR; p++;
      while (p < s.size() && s[p] != '"') {
        if (s[p] == '\\' && p + 1 < s.size()) {
          p++;
          switch (s[p]) {
          case 'n': v.s += '\n'; break; case 't': v.s += '\t'; break; case 'r': v.s += '\r'; break;
          case 'b': v.s += '\b'; break; case 'f': v.s += '\f'; break;
          case 'u': { unsigned x = 0; sscanf(s.substr(p + 1, 4).c_str(), "%x", &x); v.s += (char)x; p += 4; break; }
          default: v.s += s[p];
          }
          p++;
        } else v.s += s[p++];
      }
      p++;
    } else if (c == 't') { v.t = JV::BOOL; v.b = true; p += 4; }
    else if (c == 'f') { v.t = JV::BOOL; v.b = false; p += 5; }
    else if (c == 'n') { p += 4; }
    else { v.t = JV::NUM; size_t e = p; while (e < s.size() && (isdigit((unsigned char)s[e]) || strchr("+-.eE", s[e]))) e++; v.n = atof(s.substr(p, e - p).c_str()); if (e == p) ok = false; p = e; }
    return v;
  }
};
inline bool jparse(const std::string &text, JV &out) { JParser P(text); out = P.parse(); return P.ok; }
inline std::string slurp(const std::string &path) {
  std::ifstream f(path, std::ios::binary); std::stringstream ss; ss << f.rdbuf(); return ss.str();
}
inline void spit(const std::string &path, const std::string &data) {
  std::ofstream f(path, std::ios::binary | std::ios::trunc); f.write(data.data(), data.size());
}

// ------------------------------------------------------------------ hashing
inline uint64_t fnv(const void *p, size_t n, uint64_t h = 1469598103934665603ull) {
  const unsigned char *c = (const unsigned char *)p;
  for (size_t i = 0; i < n; i++) { h ^= c[i]; h *= 1099511628211ull; }
  return h;
}
inline uint64_t fnv(const std::string &s, uint64_t h = 1469598103934665603ull) { return fnv(s.data(), s.size(), h); }
inline uint64_t mix(uint64_t h, uint64_t v) { h ^= v + 0x9e3779b97f4a7c15ull + (h << 6) + (h >> 2); return h * 0xff51afd7ed558ccdull; }

// ------------------------------------------------------------------ statistics gathered by workers
struct Stats {
  std::map<std::string, uint64_t> c;
  std::vector<std::string> samples;  // raw JSON values
  struct Viol { std::string sig, json; uint64_t order = 0; uint64_t count = 0; };
  std::map<std::string, Viol> viols;
  std::set<uint64_t> outcomes;  // distinct outcome hashes (capped)
  static const size_t OUTCOME_CAP = 200000;
  void add(const std::string &k, uint64_t n = 1) { c[k] += n; }
  void maxv(const std::string &k, uint64_t v) { auto &x = c["max:" + k]; if (v > x) x = v; }
  void sample(const std::string &rawjson, size_t cap = 6) { if (samples.size() < cap) samples.push_back(rawjson); }
  void outcome(uint64_t h) { if (outcomes.size() < OUTCOME_CAP) outcomes.insert(h); }
  // sig: classification of the failure; order: smaller = simpler (kept as representative)
  void violation(const std::string &sig, uint64_t order, const std::string &rawjson) {
    auto &v = viols[sig];
    if (v.count == 0 || order < v.order) { v.sig = sig; v.order = order; v.json = rawjson; }
    v.count++;
  }
  void merge(const Stats &o) {
    for (auto &p : o.c) { if (p.first.rfind("max:", 0) == 0) { auto &x = c[p.first]; x = std::max(x, p.second); } else c[p.first] += p.second; }
    for (auto &s : o.samples) if (samples.size() < 12) samples.push_back(s);
    for (auto &p : o.viols) {
      auto &v = viols[p.first];
      uint64_t cnt = v.count + p.second.count;
      if (v.count == 0 || p.second.order < v.order) v = p.second;
      v.count = cnt;
    }
    for (auto h : o.outcomes) if (outcomes.size() < OUTCOME_CAP) outcomes.insert(h);
  }
  static void wstr(FILE *f, const std::string &s) { uint64_t n = s.size(); fwrite(&n, 8, 1, f); fwrite(s.data(), 1, n, f); }
  static bool rstr(FILE *f, std::string &s) { uint64_t n; if (fread(&n, 8, 1, f) != 1) return false; s.resize(n); return n == 0 || fread(&s[0], 1, n, f) == n; }
  void save(const std::string &path) const {
    FILE *f = fopen(path.c_str(), "wb"); if (!f) return;
    uint64_t n = c.size(); fwrite(&n, 8, 1, f);
    for (auto &p : c) { wstr(f, p.first); fwrite(&p.second, 8, 1, f); }
    n = samples.size(); fwrite(&n, 8, 1, f); for (auto &s : samples) wstr(f, s);
    n = viols.size(); fwrite(&n, 8, 1, f);
    for (auto &p : viols) { wstr(f, p.second.sig); wstr(f, p.second.json); fwrite(&p.second.order, 8, 1, f); fwrite(&p.second.count, 8, 1, f); }
    n = outcomes.size(); fwrite(&n, 8, 1, f); for (auto h : outcomes) fwrite(&h, 8, 1, f);
    uint64_t magic = 0x600DF00D; fwrite(&magic, 8, 1, f);
    fclose(f);
  }
  bool load(const std::string &path) {
    FILE *f = fopen(path.c_str(), "rb"); if (!f) return false;
    bool ok = true; uint64_t n = 0;
    if (fread(&n, 8, 1, f) != 1) ok = false;
    for (uint64_t i = 0; ok && i < n; i++) { std::string k; uint64_t v; ok = rstr(f, k) && fread(&v, 8, 1, f) == 1; if (ok) c[k] = v; }
    if (ok && fread(&n, 8, 1, f) != 1) ok = false;
    for (uint64_t i = 0; ok && i < n; i++) { std::string s; ok = rstr(f, s); if (ok) samples.push_back(s); }
    if (ok && fread(&n, 8, 1, f) != 1) ok = false;
    for (uint64_t i = 0; ok && i < n; i++) { Viol v; ok = rstr(f, v.sig) && rstr(f, v.json) && fread(&v.order, 8, 1, f) == 1 && fread(&v.count, 8, 1, f) == 1; if (ok) viols[v.sig] = v; }
    if (ok && fread(&n, 8, 1, f) != 1) ok = false;
    for (uint64_t i = 0; ok && i < n; i++) { uint64_t h; ok = fread(&h, 8, 1, f) == 1; if (ok) outcomes.insert(h); }
    uint64_t magic = 0; if (ok) ok = fread(&magic, 8, 1, f) == 1 && magic == 0x600DF00D;
    fclose(f); return ok;
  }
};

// ------------------------------------------------------------------ run context
struct Ctx {
  std::string prop, tier, verif, repo, scratch;
  int seed = 0;
  double t0 = now(), deadline = 0;  // absolute time
  int workers = 16;
  std::string replayPath;
  bool thorough() const { return tier == "thorough"; }
  bool expired() const { return deadline > 0 && now() > deadline; }
};
inline Ctx parse_args(const std::string &prop, int argc, char **argv, double quickBudget, double thoroughBudget) {
  Ctx c; c.prop = prop;
  c.tier = getenv("VERIF_TIER") ? getenv("VERIF_TIER") : "quick";
  for (int i = 1; i < argc; i++) {
    if (!strcmp(argv[i], "--tier") && i + 1 < argc) c.tier = argv[++i];
    else if (!strcmp(argv[i], "--replay") && i + 1 < argc) c.replayPath = argv[++i];
  }
  c.verif = getenv("VERIF_DIR") ? getenv("VERIF_DIR") : "/verif";
  c.repo = getenv("HEX_REPO") ? getenv("HEX_REPO") : "/repo";
  c.scratch = getenv("HEXMC_SCRATCH") ? getenv("HEXMC_SCRATCH") : (c.verif + "/build/scratch/manual");
  mkdir((c.verif + "/build").c_str(), 0755); mkdir((c.verif + "/build/scratch").c_str(), 0755); mkdir(c.scratch.c_str(), 0755);
  c.seed = getenv("VERIF_SEED") ? atoi(getenv("VERIF_SEED")) : 0;
  double budget = c.thorough() ? thoroughBudget : quickBudget;
  if (getenv("HEXMC_BUDGET")) budget = atof(getenv("HEXMC_BUDGET"));
  c.deadline = c.t0 + budget;
  long n = sysconf(_SC_NPROCESSORS_ONLN); c.workers = n > 0 ? (int)std::min<long>(n, 16) : 8;
  if (getenv("HEXMC_WORKERS")) c.workers = atoi(getenv("HEXMC_WORKERS"));
#ifndef __SANITIZE_ADDRESS__
  { struct rlimit rl; rl.rlim_cur = rl.rlim_max = (rlim_t)24 << 30; setrlimit(RLIMIT_AS, &rl); }  // the parent never needs more
#endif
  return c;
}

// ------------------------------------------------------------------ fork-isolated chunked enumeration
// body(begin, end, skip, stats, cur): iterate indices [begin,end); before executing index i store *cur = i;
// indices in `skip` must not be executed (they crashed/hung before and are already recorded).
// A child that dies is recorded as violation sig "crash:<signal>" / "hang" at *cur; the chunk is re-run with that index skipped.
using ChunkBody = std::function<void(uint64_t, uint64_t, const std::set<uint64_t> &, Stats &, volatile uint64_t *)>;
using Describe = std::function<std::string(uint64_t)>;  // index -> raw JSON describing the case (for crash replay files)

struct RunResult { Stats stats; bool complete = true; uint64_t chunksDone = 0, chunksTotal = 0; };

inline void child_limits(size_t asBytes) {
  struct rlimit rl;
#ifndef __SANITIZE_ADDRESS__
  rl.rlim_cur = rl.rlim_max = asBytes; setrlimit(RLIMIT_AS, &rl);   // (ASan reserves terabytes of shadow: no address-space limit there)
#endif
  rl.rlim_cur = rl.rlim_max = 0; setrlimit(RLIMIT_CORE, &rl);
}

// Runs fn on a thread with a large stack (deeply recursive reference interpreters must not be what overflows).
inline void on_big_stack(const std::function<void()> &fn, size_t bytes = (size_t)1 << 30) {
  pthread_attr_t at; pthread_attr_init(&at); pthread_attr_setstacksize(&at, bytes);
  pthread_t th;
  auto tramp = [](void *p) -> void * { (*static_cast<const std::function<void()> *>(p))(); return nullptr; };
  if (pthread_create(&th, &at, tramp, (void *)&fn) != 0) { fn(); return; }
  pthread_join(th, nullptr);
}

inline RunResult run_chunks(const Ctx &ctx, const std::string &label, uint64_t total, uint64_t nchunks, ChunkBody body, Describe describe,
                            double hangSeconds = 20.0, size_t asBytes = (size_t)6 << 30, const std::string &crashSigPrefix = "") {
  RunResult rr;
  if (total == 0) return rr;
  nchunks = std::max<uint64_t>(1, std::min<uint64_t>(nchunks, total));
  rr.chunksTotal = nchunks;
  struct Slot { volatile uint64_t cur; volatile double beat; };
  int W = ctx.workers;
  Slot *slots = (Slot *)mmap(nullptr, sizeof(Slot) * W, PROT_READ | PROT_WRITE, MAP_SHARED | MAP_ANONYMOUS, -1, 0);
  struct Job { uint64_t chunk; pid_t pid; std::set<uint64_t> skip; std::string file; double start; };
  std::vector<Job> running(W);
  std::vector<bool> busy(W, false);
  uint64_t next = 0;
  std::vector<std::set<uint64_t>> retrySkip;  // pending retries
  std::vector<uint64_t> retryChunk;
  auto bounds = [&](uint64_t ch, uint64_t &b, uint64_t &e) { b = total * ch / nchunks; e = total * (ch + 1) / nchunks; };
  auto launch = [&](int w, uint64_t ch, const std::set<uint64_t> &skip) {
    Job &j = running[w];
    j.chunk = ch; j.skip = skip; j.start = now();
    j.file = ctx.scratch + "/" + label + "." + std::to_string(ch) + "." + std::to_string(skip.size()) + ".st";
    slots[w].cur = ~0ull; slots[w].beat = now();
    fflush(stdout); fflush(stderr);
    pid_t p = fork();
    if (p == 0) {
      child_limits(asBytes);
      uint64_t b, e; bounds(ch, b, e);
      Stats st;
      on_big_stack([&] { body(b, e, skip, st, &slots[w].cur); });
      st.save(j.file);
      _exit(0);
    }
    j.pid = p; busy[w] = true;
  };
  int active = 0;
  bool stopLaunching = false;
  while (true) {
    // launch
    for (int w = 0; w < W; w++) {
      if (busy[w]) continue;
      if (!retryChunk.empty()) { launch(w, retryChunk.back(), retrySkip.back()); retryChunk.pop_back(); retrySkip.pop_back(); active++; }
      else if (next < nchunks && !stopLaunching) {
        if (ctx.expired()) { stopLaunching = true; rr.complete = false; continue; }
        launch(w, next++, {}); active++;
      }
    }
    if (active == 0) break;
    // wait for any child, with hang monitoring
    int status = 0; pid_t p = waitpid(-1, &status, WNOHANG);
    if (p <= 0) {
      usleep(2000);
      double t = now();
      for (int w = 0; w < W; w++) if (busy[w]) {
        // progress heartbeat: cur changes => reset
        static thread_local std::map<int, uint64_t> last;
        if (last[w] != slots[w].cur) { last[w] = slots[w].cur; slots[w].beat = t; }
        else if (t - slots[w].beat > hangSeconds && slots[w].cur != ~0ull) { kill(running[w].pid, SIGKILL); slots[w].beat = t + 1e9; /* mark hang */ }
      }
      continue;
    }
    int w = -1;
    for (int i = 0; i < W; i++) if (busy[i] && running[i].pid == p) w = i;
    if (w < 0) continue;
    busy[w] = false; active--;
    Job &j = running[w];
    Stats st;
    bool okExit = WIFEXITED(status) && WEXITSTATUS(status) == 0 && st.load(j.file);
    unlink(j.file.c_str());
    if (okExit) { rr.stats.merge(st); rr.chunksDone++; continue; }
    // abnormal: attribute to the current index
    uint64_t cur = slots[w].cur;
    uint64_t b, e; bounds(j.chunk, b, e);
    std::string sig;
    if (WIFSIGNALED(status)) {
      int sg = WTERMSIG(status);
      sig = (sg == SIGKILL && slots[w].beat > now() + 1e8) ? "hang" : std::string("crash:signal") + std::to_string(sg);
    } else sig = "crash:exit" + std::to_string(WIFEXITED(status) ? WEXITSTATUS(status) : -1);
    if (cur == ~0ull || cur < b || cur >= e) {
      // died outside a case: harness problem
      fprintf(stderr, "[mc] worker died outside a case (%s, chunk %llu): harness failure\n", sig.c_str(), (unsigned long long)j.chunk);
      exit(2);
    }
    std::string d = describe ? describe(cur) : "{}";
    if (sig == "hang") {
      // a case that made no progress for hangSeconds is run once more on its own with eight times the limit before it is called a hang: slow is not the same as stuck
      std::string f2 = ctx.scratch + "/" + label + ".confirm." + std::to_string(cur) + ".st";
      fflush(stdout); fflush(stderr);
      pid_t c = fork();
      if (c == 0) { child_limits(asBytes); Stats st2; volatile uint64_t dummy = ~0ull; on_big_stack([&] { body(cur, cur + 1, {}, st2, &dummy); }); st2.save(f2); _exit(0); }
      double t0 = now(); int cst = 0; bool done = false;
      while (now() - t0 < 8 * hangSeconds) { pid_t r = waitpid(c, &cst, WNOHANG); if (r == c) { done = true; break; } usleep(5000); }
      if (!done) { kill(c, SIGKILL); waitpid(c, &cst, 0); }
      Stats st2;
      if (done && WIFEXITED(cst) && WEXITSTATUS(cst) == 0 && st2.load(f2)) {
        unlink(f2.c_str());
        rr.stats.merge(st2); rr.stats.add("slow_cases_finished_when_run_alone");
        rr.stats.sample(mc::Obj().kv("slow_case_seconds", now() - t0).raw("case", d).str(), 3);
        auto skip = j.skip; skip.insert(cur);
        retryChunk.push_back(j.chunk); retrySkip.push_back(skip);
        continue;
      }
      unlink(f2.c_str());
      if (done) sig = WIFSIGNALED(cst) ? std::string("crash:signal") + std::to_string(WTERMSIG(cst)) : "crash:exit" + std::to_string(WIFEXITED(cst) ? WEXITSTATUS(cst) : -1);
    }
    rr.stats.violation(crashSigPrefix + sig, cur, mc::Obj().kv("index", cur).kv("effect", sig).raw("case", d).str());
    auto skip = j.skip; skip.insert(cur);
    if (skip.size() > 2000) { fprintf(stderr, "[mc] more than 2000 crashing cases in one chunk; chunk abandoned\n"); rr.complete = false; continue; }
    retryChunk.push_back(j.chunk); retrySkip.push_back(skip);
  }
  if (next < nchunks) rr.complete = false;
  munmap(slots, sizeof(Slot) * W);
  return rr;
}

// Run one function in a forked child with limits; returns: 0 ok, >0 signal number, -1 timeout, -2 other exit. Output of fn via file.
inline int run_isolated(const std::function<void()> &fn, double timeout, size_t asBytes = (size_t)6 << 30) {
  fflush(stdout); fflush(stderr);
  pid_t p = fork();
  if (p == 0) { setvbuf(stdout, nullptr, _IOLBF, 0); child_limits(asBytes); fn(); fflush(stdout); _exit(0); }
  double t0 = now();
  int status;
  while (true) {
    pid_t r = waitpid(p, &status, WNOHANG);
    if (r == p) break;
    if (now() - t0 > timeout) { kill(p, SIGKILL); waitpid(p, &status, 0); return -1; }
    usleep(1000);
  }
  if (WIFEXITED(status)) return WEXITSTATUS(status) == 0 ? 0 : -2;
  return WTERMSIG(status);
}

// ------------------------------------------------------------------ known findings
struct Known { std::string status, property, sig, what, commit; };
inline std::vector<Known> load_known(const Ctx &ctx) {
  std::vector<Known> out;
  std::ifstream f(ctx.verif + "/known_findings.jsonl");
  std::string line;
  while (std::getline(f, line)) {
    if (line.find('{') == std::string::npos) continue;
    JV v; if (!jparse(line, v)) continue;
    Known k; k.status = v.str("status"); k.property = v.str("property"); k.sig = v.str("sig"); k.what = v.str("what"); k.commit = v.str("commit");
    out.push_back(k);
  }
  return out;
}

// ------------------------------------------------------------------ evidence + verdict
struct Report {
  Ctx ctx;
  Stats st;
  bool exhaustive = true;
  std::vector<std::string> caps;         // caps hit
  std::vector<std::string> assumptions;
  std::vector<std::string> trusted;
  std::string rule;
  Obj bounds;                            // free-form bounds object
  Obj extra;                             // additional coverage keys
  uint64_t states = 0, transitions = 0, validated = 0, evaluations = 0, nontrivial = 0;
  std::string checker_cmd;

  int finish() {
    auto known = load_known(ctx);
    std::vector<std::string> lines;
    int unknown = 0; uint64_t totalViol = 0;
    Obj kf;
    std::string rdir = ctx.verif + "/replay/" + ctx.prop;
    mkdir((ctx.verif + "/replay").c_str(), 0755); mkdir(rdir.c_str(), 0755);
    int n = 0;
    for (auto &p : st.viols) {
      const auto &v = p.second;
      const Known *k = nullptr;
      for (auto &kn : known) if (kn.status == "known" && kn.property == ctx.prop && kn.sig == v.sig) k = &kn;
      std::string path = rdir + "/" + std::to_string(n++) + ".json";
      spit(path, Obj().kv("property", ctx.prop).kv("signature", v.sig).kv("count", v.count).raw("case", v.json).str() + "\n");
      if (k) {
        lines.push_back("KNOWN-FINDING: property=" + ctx.prop + " " + v.sig + " " + k->what + " (" + std::to_string(v.count) + " cases, smallest: " + path + ")");
        kf.kv(v.sig, v.count);
      } else {
        lines.push_back("VIOLATION property=" + ctx.prop + " replay=" + path + " signature=" + v.sig + " cases=" + std::to_string(v.count));
        unknown++; totalViol += v.count;
      }
    }
    double wall = now() - ctx.t0;
    Obj cov;
    cov.kv("states", std::max<uint64_t>(states, 0)).kv("transitions", transitions).kv("traces_validated_against_impl", validated);
    cov.kv("evaluations", evaluations).kv("distinct_nontrivial", nontrivial).kv("rule", rule);
    cov.raw("samples", jarr(st.samples.empty() ? std::vector<std::string>{"\"(none)\""} : st.samples));
    cov.kb("exhaustive", exhaustive && caps.empty());
    cov.raw("bounds", bounds.str());
    Obj ctr; for (auto &p : st.c) ctr.kv(p.first, p.second);
    cov.raw("counters", ctr.str());
    cov.kv("distinct_outcomes", (uint64_t)st.outcomes.size());
    cov.raw("known_findings", kf.str());
    cov.raw("caps_hit", jarrs(caps));
    cov.kv("checker_cmd", checker_cmd.empty() ? ("bin/check " + ctx.prop + " --tier " + ctx.tier) : checker_cmd);
    cov.raw("trusted_base", jarrs(trusted));
    if (!extra.s.empty()) cov.s += "," + extra.s;
    Obj ev;
    ev.kv("property_id", ctx.prop).kv("tier", ctx.tier).kv("seed", ctx.seed).kv("level", "model_checking");
    ev.raw("coverage", cov.str()).raw("assumptions", jarrs(assumptions)).kv("wall_s", wall).kv("violations", (int64_t)unknown);
    ev.kv("build_s", getenv("VERIF_BUILD_S") ? atof(getenv("VERIF_BUILD_S")) : 0.0);
    std::string evdir = getenv("HEXMC_EVIDENCE_DIR") ? getenv("HEXMC_EVIDENCE_DIR") : ctx.verif + "/evidence";
    mkdir(evdir.c_str(), 0755);
    spit(evdir + "/" + ctx.prop + ".json", ev.str() + "\n");
    for (auto &l : lines) printf("%s\n", l.c_str());
    printf("[%s] tier=%s evaluations=%llu states=%llu transitions=%llu nontrivial=%llu exhaustive=%s wall=%.1fs violations=%d\n", ctx.prop.c_str(),
           ctx.tier.c_str(), (unsigned long long)evaluations, (unsigned long long)states, (unsigned long long)transitions,
           (unsigned long long)nontrivial, (exhaustive && caps.empty()) ? "true" : "false", wall, unknown);
    fflush(stdout);
    return unknown ? 1 : 0;
  }
};

inline void phase(const Ctx &ctx, const std::string &what) {
  fprintf(stderr, "[%s +%.1fs] %s\n", ctx.prop.c_str(), now() - ctx.t0, what.c_str()); fflush(stderr);
}
[[noreturn]] inline void harness_fail(const std::string &msg) {
  fprintf(stderr, "[mc] HARNESS/SELF-TEST FAILURE: %s\n", msg.c_str());
  exit(2);
}

}  // namespace mc
