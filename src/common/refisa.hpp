// RefISA: reference step function for the Hex architecture, transcribed from docs/PDFs/hexb.pdf (see DESIGN.md Appendix C).
// Independent of the repository sources.  Memory is a flat 200000-word array with an optional write log (for undo in DFS).
#pragma once
#include <cstdint>
#include <string>
#include <vector>

namespace refisa {

constexpr uint32_t MEM_WORDS = 200000;
constexpr uint32_t MEM_BYTES = MEM_WORDS * 4;

enum Cls { DEFINED = 0, UNDEF_OPCODE, UNDEF_OPR, UNDEF_SVC, OUT_OF_RANGE, NEED_INPUT_STREAM, AMBIGUOUS_STREAM };

struct Env {  // environment the machine talks to
  std::string in;          // stdin bytes
  size_t inPos = 0;        // bytes consumed
  std::string out;         // stdout bytes
  std::string files[8];    // simout<n>
  std::string inFiles[8];  // simin<n> (a missing file reads like an empty one)
  size_t inFilePos[8] = {0, 0, 0, 0, 0, 0, 0, 0};
  bool fileInput = false;  // when set, reads from streams >= 256 are served from inFiles (otherwise such steps are classified NEED_INPUT_STREAM)
  bool exited = false;
  uint32_t exitValue = 0;
};

struct Access { uint8_t kind; uint32_t addr; };  // kind: 0 fetch, 1 load, 2 store (word addresses)

struct Machine {
  uint32_t pc = 0, areg = 0, breg = 0, oreg = 0;
  std::vector<uint32_t> mem;
  // optional monitors
  bool logWrites = false;
  std::vector<std::pair<uint32_t, uint32_t>> wlog;  // (addr, old value)
  bool logAccess = false;
  std::vector<Access> alog;
  uint64_t steps = 0;
  Machine() : mem(MEM_WORDS, 0) {}

  inline uint8_t fetchByte(uint32_t p) const { return (mem[p >> 2] >> (8 * (p & 3))) & 0xFF; }
  inline void store(uint32_t a, uint32_t v) {
    if (logWrites) wlog.push_back({a, mem[a]});
    if (logAccess) alog.push_back({2, a});
    mem[a] = v;
  }
  inline uint32_t load(uint32_t a) { if (logAccess) alog.push_back({1, a}); return mem[a]; }

  // Classify the step that would execute next, without executing it.
  // rangePc: additionally require resulting pc / LDAP result < MEM_BYTES (needed when comparing with the 21-bit RTL).
  Cls classify(bool rangePc = false) const {
    if (pc >= MEM_BYTES) return OUT_OF_RANGE;
    uint8_t b = fetchByte(pc);
    uint32_t o = oreg | (b & 15);
    uint32_t npc = pc + 1;
    auto inr = [](uint32_t a) { return a < MEM_WORDS; };
    auto pcok = [&](uint32_t p) { return !rangePc || p < MEM_BYTES; };
    switch (b >> 4) {
    case 0x0: case 0x1: case 0x2: return (inr(o) && pcok(npc)) ? DEFINED : OUT_OF_RANGE;
    case 0x3: case 0x4: return pcok(npc) ? DEFINED : OUT_OF_RANGE;
    case 0x5: return (pcok(npc + o) && pcok(npc)) ? DEFINED : OUT_OF_RANGE;
    case 0x6: return (inr(areg + o) && pcok(npc)) ? DEFINED : OUT_OF_RANGE;
    case 0x7: case 0x8: return (inr(breg + o) && pcok(npc)) ? DEFINED : OUT_OF_RANGE;
    case 0x9: return pcok(npc + o) ? DEFINED : OUT_OF_RANGE;
    case 0xA: return pcok(areg == 0 ? npc + o : npc) ? DEFINED : OUT_OF_RANGE;
    case 0xB: return pcok((int32_t)areg < 0 ? npc + o : npc) ? DEFINED : OUT_OF_RANGE;
    case 0xC: return UNDEF_OPCODE;
    case 0xD:
      if (o > 3) return UNDEF_OPR;
      if (o == 0) return pcok(breg) ? DEFINED : OUT_OF_RANGE;
      if (!pcok(npc)) return OUT_OF_RANGE;
      if (o == 3) {
        if (areg > 2) return UNDEF_SVC;
        uint32_t sp = mem[1];
        if (areg == 0) return inr(sp + 2) ? DEFINED : OUT_OF_RANGE;
        if (areg == 1) return !(inr(sp + 2) && inr(sp + 3)) ? OUT_OF_RANGE : (mem[sp + 3] >= 0x80000000u ? AMBIGUOUS_STREAM : DEFINED);
        if (!(inr(sp + 1) && inr(sp + 2))) return OUT_OF_RANGE;
        return mem[sp + 2] < 256 ? DEFINED : (mem[sp + 2] >= 0x80000000u ? AMBIGUOUS_STREAM : NEED_INPUT_STREAM);
      }
      return DEFINED;
    case 0xE: case 0xF: return pcok(npc) ? DEFINED : OUT_OF_RANGE;
    }
    return DEFINED;
  }

  // Execute one step (caller has checked classify()==DEFINED).  Returns the instruction byte.
  uint8_t step(Env &env) {
    if (logAccess) alog.push_back({0, pc >> 2});
    uint8_t b = fetchByte(pc);
    pc = pc + 1;
    uint32_t o = oreg | (b & 15);
    uint32_t noreg = 0;
    switch (b >> 4) {
    case 0x0: areg = load(o); break;
    case 0x1: breg = load(o); break;
    case 0x2: store(o, areg); break;
    case 0x3: areg = o; break;
    case 0x4: breg = o; break;
    case 0x5: areg = pc + o; break;
    case 0x6: areg = load(areg + o); break;
    case 0x7: breg = load(breg + o); break;
    case 0x8: store(breg + o, areg); break;
    case 0x9: pc = pc + o; break;
    case 0xA: if (areg == 0) pc = pc + o; break;
    case 0xB: if ((int32_t)areg < 0) pc = pc + o; break;
    case 0xD:
      switch (o) {
      case 0: pc = breg; break;
      case 1: areg = areg + breg; break;
      case 2: areg = areg - breg; break;
      case 3: svc(env); break;
      }
      break;
    case 0xE: noreg = o << 4; break;
    case 0xF: noreg = 0xFFFFFF00u | (o << 4); break;
    }
    oreg = noreg;
    steps++;
    return b;
  }

  void svc(Env &env) {
    uint32_t sp = mem[1];
    switch (areg) {
    case 0: env.exited = true; env.exitValue = load(sp + 2); break;
    case 1: {
      uint32_t v = load(sp + 2), s = load(sp + 3);
      if (s < 256) env.out += (char)(v & 0xFF);
      else env.files[(s >> 8) & 7] += (char)(v & 0xFF);
      break;
    }
    case 2: {
      uint32_t s = load(sp + 2);
      uint32_t v;
      if (s >= 256) { int ix = (s >> 8) & 7; if (env.inFilePos[ix] < env.inFiles[ix].size()) v = (uint8_t)env.inFiles[ix][env.inFilePos[ix]++]; else v = 0xFF; }
      else if (env.inPos < env.in.size()) v = (uint8_t)env.in[env.inPos++];
      else v = 0xFF;  // end of input reads as 255
      store(sp + 1, v & 0xFF);
      break;
    }
    }
  }

  void undoTo(size_t mark) {
    while (wlog.size() > mark) { mem[wlog.back().first] = wlog.back().second; wlog.pop_back(); }
  }
  // Load an image file body (after the 4-byte length header): words little-endian at address 0.
  void loadWords(const std::string &bytes) {
    for (size_t i = 0; i + 3 < bytes.size() && i / 4 < MEM_WORDS; i += 4)
      mem[i / 4] = (uint8_t)bytes[i] | ((uint8_t)bytes[i + 1] << 8) | ((uint8_t)bytes[i + 2] << 16) | ((uint32_t)(uint8_t)bytes[i + 3] << 24);
  }
};

// Parsed Hex binary file: [u32 nwords][nwords*4 bytes image][optional: u32 nstrings, strings\0..., u32 nsyms, (u32 idx,u32 off)*]
struct Image {
  uint32_t nwords = 0;
  std::string body;  // image bytes (nwords*4, or fewer if the file is short)
  std::vector<std::pair<std::string, uint32_t>> symbols;
  bool hasDebug = false, wellFormed = true;
  std::string rest;
};
inline Image parseImage(const std::string &file) {
  Image im;
  auto u32 = [&](size_t p) { return (uint32_t)(uint8_t)file[p] | ((uint32_t)(uint8_t)file[p + 1] << 8) | ((uint32_t)(uint8_t)file[p + 2] << 16) | ((uint32_t)(uint8_t)file[p + 3] << 24); };
  if (file.size() < 4) { im.wellFormed = false; return im; }
  im.nwords = u32(0);
  size_t n = (size_t)im.nwords * 4;
  if (file.size() < 4 + n) { im.wellFormed = false; im.body = file.substr(4); return im; }
  im.body = file.substr(4, n);
  size_t p = 4 + n;
  im.rest = file.substr(p);
  if (p == file.size()) return im;
  im.hasDebug = true;
  if (p + 4 > file.size()) { im.wellFormed = false; return im; }
  uint32_t ns = u32(p); p += 4;
  std::vector<std::string> strs;
  for (uint32_t i = 0; i < ns; i++) {
    std::string s;
    while (p < file.size() && file[p] != 0) s += file[p++];
    if (p >= file.size()) { im.wellFormed = false; return im; }
    p++;
    strs.push_back(s);
  }
  if (p + 4 > file.size()) { im.wellFormed = false; return im; }
  uint32_t nsym = u32(p); p += 4;
  for (uint32_t i = 0; i < nsym; i++) {
    if (p + 8 > file.size()) { im.wellFormed = false; return im; }
    uint32_t idx = u32(p), off = u32(p + 4); p += 8;
    if (idx >= strs.size()) { im.wellFormed = false; return im; }
    im.symbols.push_back({strs[idx], off});
  }
  if (p != file.size()) im.wellFormed = false;
  return im;
}

static const char *MNEM[16] = {"LDAM", "LDBM", "STAM", "LDAC", "LDBC", "LDAP", "LDAI", "LDBI", "STAI", "BR", "BRZ", "BRN", "?", "OPR", "PFIX", "NFIX"};

}  // namespace refisa
