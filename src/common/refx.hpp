// RefX: independent reference semantics for the X language (DESIGN.md Appendix B).  Own lexer, parser, resolver and interpreter with
// definedness tracking; nothing here is derived from xcmp.hpp.  run() returns an outcome, UNDEFINED(reason), UNSUPPORTED(reason) or BUDGET.
#pragma once
#include <cstdint>
#include <map>
#include <memory>
#include <set>
#include <string>
#include <algorithm>
#include <vector>

namespace refx {

// ------------------------------------------------------------------------------------------------ lexer
enum Tok { T_EOF, T_ID, T_NUM, T_STR, T_LBR, T_RBR, T_LP, T_RP, T_IF, T_THEN, T_ELSE, T_WHILE, T_DO, T_ASS, T_SKIP, T_BEGIN, T_END, T_SEMI, T_COMMA,
           T_VAR, T_ARRAY, T_PROC, T_FUNC, T_IS, T_STOP, T_NOT, T_VAL, T_TRUE, T_FALSE, T_RETURN, T_PLUS, T_MINUS, T_OR, T_AND, T_EQ, T_NE, T_LS, T_LE, T_GR, T_GE, T_ERR };
struct Token { Tok t; std::string s; uint32_t n = 0; };

struct Lexer {
  const std::string &src; size_t p = 0; std::string err;
  Lexer(const std::string &s) : src(s) {}
  bool charConst(char &out) {
    if (p >= src.size()) return false;
    char c = src[p++];
    if (c == '\\') {
      if (p >= src.size()) return false;
      char e = src[p++];
      switch (e) { case '\\': out = '\\'; break; case '\'': out = '\''; break; case '"': out = '"'; break; case 't': out = '\t'; break; case 'r': out = '\r'; break; case 'n': out = '\n'; break; default: return false; }
    } else out = c;
    return true;
  }
  Token next() {
    while (p < src.size()) {
      if (isspace((unsigned char)src[p])) { p++; continue; }
      if (src[p] == '|') { while (p < src.size() && src[p] != '\n') p++; continue; }
      break;
    }
    Token t; t.t = T_EOF;
    if (p >= src.size()) return t;
    unsigned char c = src[p];
    if (isalpha(c)) {
      size_t q = p; while (q < src.size() && (isalnum((unsigned char)src[q]) || src[q] == '_')) q++;
      t.s = src.substr(p, q - p); p = q;
      static const std::map<std::string, Tok> kw = {{"and", T_AND}, {"array", T_ARRAY}, {"do", T_DO}, {"else", T_ELSE}, {"false", T_FALSE}, {"func", T_FUNC}, {"if", T_IF}, {"is", T_IS}, {"or", T_OR},
                                                    {"proc", T_PROC}, {"return", T_RETURN}, {"skip", T_SKIP}, {"stop", T_STOP}, {"then", T_THEN}, {"true", T_TRUE}, {"val", T_VAL}, {"var", T_VAR}, {"while", T_WHILE}};
      auto f = kw.find(t.s); t.t = f == kw.end() ? T_ID : f->second; return t;
    }
    if (isdigit(c)) { uint64_t v = 0; bool big = false; while (p < src.size() && isdigit((unsigned char)src[p])) { v = v * 10 + (src[p] - '0'); if (v > 0xFFFFFFFFull) big = true; p++; } if (big) { t.t = T_ERR; err = "literal exceeds 32 bits"; return t; } t.t = T_NUM; t.n = (uint32_t)v; return t; }
    if (c == '#') { p++; uint64_t v = 0; size_t q = p; bool big = false; while (p < src.size() && isxdigit((unsigned char)src[p])) { v = v * 16 + (isdigit((unsigned char)src[p]) ? src[p] - '0' : (src[p] | 32) - 'a' + 10); if (v > 0xFFFFFFFFull) big = true; p++; }
      if (p == q || big || (p < src.size() && isalpha((unsigned char)src[p]))) { t.t = T_ERR; err = "bad hexadecimal literal"; return t; } t.t = T_NUM; t.n = (uint32_t)v; return t; }
    p++;
    switch (c) {
    case '[': t.t = T_LBR; break; case ']': t.t = T_RBR; break; case '(': t.t = T_LP; break; case ')': t.t = T_RP; break; case '{': t.t = T_BEGIN; break; case '}': t.t = T_END; break;
    case ';': t.t = T_SEMI; break; case ',': t.t = T_COMMA; break; case '+': t.t = T_PLUS; break; case '-': t.t = T_MINUS; break; case '=': t.t = T_EQ; break;
    case '<': if (p < src.size() && src[p] == '=') { p++; t.t = T_LE; } else t.t = T_LS; break;
    case '>': if (p < src.size() && src[p] == '=') { p++; t.t = T_GE; } else t.t = T_GR; break;
    case '~': if (p < src.size() && src[p] == '=') { p++; t.t = T_NE; } else t.t = T_NOT; break;
    case ':': if (p < src.size() && src[p] == '=') { p++; t.t = T_ASS; } else { t.t = T_ERR; err = "'=' expected"; } break;
    case '\'': { char ch; if (!charConst(ch) || p >= src.size() || src[p] != '\'') { t.t = T_ERR; err = "bad character constant"; break; } p++; t.t = T_NUM; t.n = (uint32_t)(int32_t)ch; break; }
    case '"': { t.t = T_STR; while (p < src.size() && src[p] != '"') { char ch; if (!charConst(ch)) { t.t = T_ERR; err = "bad string"; return t; } t.s += ch; } if (p >= src.size()) { t.t = T_ERR; err = "unterminated string"; return t; } p++; break; }
    default: t.t = T_ERR; err = "unexpected character";
    }
    return t;
  }
};

// ------------------------------------------------------------------------------------------------ AST
struct Expr {
  enum K { NUM, STR, NAME, SUB, CALL, SYSCALL, UN, BIN } k;
  int32_t num = 0; std::string name, str; Tok op = T_EOF;
  std::unique_ptr<Expr> l, r; std::vector<std::unique_ptr<Expr>> args;
  // resolution
  int scope = -1; /*0 global,1 local*/ int slot = -1; int symKind = -1; int strId = -1; bool hasCall = false;
};
struct Stmt {
  enum K { SKIP, STOP, RETURN, IF, WHILE, SEQ, CALL, ASS } k;
  std::unique_ptr<Expr> e, lhs; std::unique_ptr<Stmt> a, b; std::vector<std::unique_ptr<Stmt>> seq;
};
enum SymKind { S_VAL, S_VAR, S_ARRAY, S_PROC, S_FUNC, S_VALFORMAL, S_ARRAYFORMAL, S_PROCFORMAL, S_FUNCFORMAL };
struct Decl { SymKind kind; std::string name; std::unique_ptr<Expr> e; int32_t constVal = 0; int slot = -1; int base = -1; };
struct Proc { bool func; std::string name; std::vector<Decl> formals, locals; std::unique_ptr<Stmt> body; int nslots = 0; };
struct Program { std::vector<Decl> globals; std::vector<Proc> procs; std::vector<std::string> strings; };

// ------------------------------------------------------------------------------------------------ parser
struct Parser {
  Lexer lx; Token t; std::string err; Program &pg;
  Parser(const std::string &s, Program &pg) : lx(s), pg(pg) { adv(); }
  void adv() { t = lx.next(); if (t.t == T_ERR && err.empty()) err = "lexical: " + lx.err; }
  bool fail(const std::string &m) { if (err.empty()) err = m; return false; }
  bool expect(Tok k, const char *what) { if (t.t != k) return fail(std::string("expected ") + what); adv(); return true; }
  static bool isBin(Tok k) { return k == T_PLUS || k == T_MINUS || k == T_OR || k == T_AND || k == T_EQ || k == T_NE || k == T_LS || k == T_LE || k == T_GR || k == T_GE; }
  static bool assoc(Tok k) { return k == T_PLUS || k == T_AND || k == T_OR; }
  std::unique_ptr<Expr> element() {
    auto e = std::make_unique<Expr>();
    switch (t.t) {
    case T_ID: {
      e->name = t.s; adv();
      if (t.t == T_LBR) { adv(); e->k = Expr::SUB; e->l = expr(); if (!e->l || !expect(T_RBR, "]")) return nullptr; return e; }
      if (t.t == T_LP) { adv(); e->k = Expr::CALL; if (t.t == T_RP) { adv(); return e; } if (!exprList(e->args) || !expect(T_RP, ")")) return nullptr; return e; }
      e->k = Expr::NAME; return e;
    }
    case T_NUM: {
      uint32_t v = t.n; adv();
      if (t.t == T_LP) { adv(); e->k = Expr::SYSCALL; e->num = (int32_t)v; if (t.t == T_RP) { adv(); return e; } if (!exprList(e->args) || !expect(T_RP, ")")) return nullptr; return e; }
      e->k = Expr::NUM; e->num = (int32_t)v; return e;
    }
    case T_STR: e->k = Expr::STR; e->str = t.s; adv(); return e;
    case T_TRUE: e->k = Expr::NUM; e->num = 1; adv(); return e;
    case T_FALSE: e->k = Expr::NUM; e->num = 0; adv(); return e;
    case T_LP: { adv(); auto x = expr(); if (!x || !expect(T_RP, ")")) return nullptr; return x; }
    default: fail("expression element expected"); return nullptr;
    }
  }
  bool exprList(std::vector<std::unique_ptr<Expr>> &v) {
    while (true) { auto e = expr(); if (!e) return false; v.push_back(std::move(e)); if (t.t == T_COMMA) { adv(); continue; } return true; }
  }
  std::unique_ptr<Expr> binRhs(Tok op) {
    auto el = element(); if (!el) return nullptr;
    if (assoc(op) && t.t == op) { adv(); auto r = binRhs(op); if (!r) return nullptr; auto b = std::make_unique<Expr>(); b->k = Expr::BIN; b->op = op; b->l = std::move(el); b->r = std::move(r); return b; }
    return el;
  }
  std::unique_ptr<Expr> expr() {
    if (t.t == T_MINUS || t.t == T_NOT) { Tok op = t.t; adv(); auto el = element(); if (!el) return nullptr; auto u = std::make_unique<Expr>(); u->k = Expr::UN; u->op = op; u->l = std::move(el); return u; }
    auto el = element(); if (!el) return nullptr;
    if (isBin(t.t)) { Tok op = t.t; adv(); auto r = binRhs(op); if (!r) return nullptr; auto b = std::make_unique<Expr>(); b->k = Expr::BIN; b->op = op; b->l = std::move(el); b->r = std::move(r); return b; }
    return el;
  }
  bool decl(std::vector<Decl> &out, bool allowArray) {
    Decl d;
    if (t.t == T_VAL) { adv(); if (t.t != T_ID) return fail("name expected"); d.kind = S_VAL; d.name = t.s; adv(); if (!expect(T_EQ, "=")) return false; d.e = expr(); if (!d.e) return false; }
    else if (t.t == T_VAR) { adv(); if (t.t != T_ID) return fail("name expected"); d.kind = S_VAR; d.name = t.s; adv(); }
    else if (t.t == T_ARRAY && allowArray) { adv(); if (t.t != T_ID) return fail("name expected"); d.kind = S_ARRAY; d.name = t.s; adv(); if (!expect(T_LBR, "[")) return false; d.e = expr(); if (!d.e || !expect(T_RBR, "]")) return false; }
    else return fail("declaration expected");
    if (!expect(T_SEMI, ";")) return false;
    out.push_back(std::move(d)); return true;
  }
  std::unique_ptr<Stmt> stmt() {
    auto s = std::make_unique<Stmt>();
    switch (t.t) {
    case T_SKIP: adv(); s->k = Stmt::SKIP; return s;
    case T_STOP: adv(); s->k = Stmt::STOP; return s;
    case T_RETURN: adv(); s->k = Stmt::RETURN; s->e = expr(); if (!s->e) return nullptr; return s;
    case T_IF: adv(); s->k = Stmt::IF; s->e = expr(); if (!s->e || !expect(T_THEN, "then")) return nullptr; s->a = stmt(); if (!s->a || !expect(T_ELSE, "else")) return nullptr; s->b = stmt(); if (!s->b) return nullptr; return s;
    case T_WHILE: adv(); s->k = Stmt::WHILE; s->e = expr(); if (!s->e || !expect(T_DO, "do")) return nullptr; s->a = stmt(); if (!s->a) return nullptr; return s;
    case T_BEGIN: { adv(); s->k = Stmt::SEQ; while (true) { auto x = stmt(); if (!x) return nullptr; s->seq.push_back(std::move(x)); if (t.t == T_SEMI) { adv(); continue; } break; } if (!expect(T_END, "}")) return nullptr; return s; }
    case T_ID: case T_NUM: {
      bool num = t.t == T_NUM;
      auto el = element(); if (!el) return nullptr;
      if (el->k == Expr::CALL || el->k == Expr::SYSCALL) { s->k = Stmt::CALL; s->e = std::move(el); return s; }
      if (num) { fail("statement cannot begin with a number"); return nullptr; }
      if (!expect(T_ASS, ":=")) return nullptr;
      s->k = Stmt::ASS; s->lhs = std::move(el); s->e = expr(); if (!s->e) return nullptr; return s;
    }
    default: fail("statement expected"); return nullptr;
    }
  }
  bool program() {
    while (t.t == T_VAL || t.t == T_VAR || t.t == T_ARRAY) if (!decl(pg.globals, true)) return false;
    while (t.t == T_PROC || t.t == T_FUNC) {
      Proc p; p.func = t.t == T_FUNC; adv();
      if (t.t != T_ID) return fail("name expected"); p.name = t.s; adv();
      if (!expect(T_LP, "(")) return false;
      if (t.t != T_RP) while (true) {
        Decl f;
        if (t.t == T_VAL) f.kind = S_VALFORMAL; else if (t.t == T_ARRAY) f.kind = S_ARRAYFORMAL; else if (t.t == T_PROC) f.kind = S_PROCFORMAL; else if (t.t == T_FUNC) f.kind = S_FUNCFORMAL; else return fail("formal expected");
        adv(); if (t.t != T_ID) return fail("name expected"); f.name = t.s; adv(); p.formals.push_back(std::move(f));
        if (t.t == T_COMMA) { adv(); continue; } break;
      }
      if (!expect(T_RP, ")") || !expect(T_IS, "is")) return false;
      while (t.t == T_VAL || t.t == T_VAR) if (!decl(p.locals, false)) return false;
      p.body = stmt(); if (!p.body) return false;
      pg.procs.push_back(std::move(p));
    }
    if (t.t != T_EOF) return fail("end of file expected");
    return err.empty();
  }
};

// ------------------------------------------------------------------------------------------------ outcome
struct Outcome {
  enum S { OK, UNDEFINED, UNSUPPORTED, BUDGET, SYNTAX } status = OK;
  std::string reason;
  std::string out; std::string files[8]; size_t consumed = 0; int32_t exitValue = 0;
  uint64_t steps = 0, calls = 0; int maxDepth = 0; uint32_t reads = 0;
  std::vector<std::string> callTrace;   // names of procedures/functions entered, in order (for C15)
  bool readPastEnd = false;             // a read was performed with no input left (the answer was 255)
  bool openOrderCalls = false;          // some operator had calls in both operands: their relative order is open (they commute, or the run would be UNDEFINED)
};

// ------------------------------------------------------------------------------------------------ interpreter
struct Cell { int32_t v = 0; bool def = false; };
struct ArrRef { int base = -1; int len = 0; bool ro = false; bool valid() const { return base >= 0; } };
// read set, write set and I/O of an evaluation.  Sets are compacted as they grow; beyond 8192 distinct cells an effect becomes `wild` (conflicts with every non-empty effect):
// that can only turn a program UNDEFINED, never make an order-dependent one look defined.
struct Eff { std::vector<uint64_t> r, w; bool io = false, wild = false; size_t lim = 256;
  bool any() const { return wild || io || !r.empty() || !w.empty(); }
  void compact() { auto u = [](std::vector<uint64_t> &v) { std::sort(v.begin(), v.end()); v.erase(std::unique(v.begin(), v.end()), v.end()); }; u(r); u(w);
                   if (r.size() + w.size() > 8192) { wild = true; r.clear(); w.clear(); } lim = std::max<size_t>(256, 2 * (r.size() + w.size())); }
  void merge(const Eff &o) { io |= o.io; wild |= o.wild; if (wild) { r.clear(); w.clear(); return; } r.insert(r.end(), o.r.begin(), o.r.end()); w.insert(w.end(), o.w.begin(), o.w.end()); if (r.size() + w.size() > lim) compact(); } };
inline bool conflicts(const Eff &a, const Eff &b) {
  if ((a.wild && b.any()) || (b.wild && a.any())) return true;
  if (a.io && b.io) return true;
  for (auto x : a.w) { for (auto y : b.r) if (x == y) return true; for (auto y : b.w) if (x == y) return true; }
  for (auto x : b.w) for (auto y : a.r) if (x == y) return true;
  return false;
}
struct Stop { Outcome::S s; std::string why; };

struct Interp {
  Program pg; Outcome oc; std::string input; size_t inPos = 0;
  int effDepth = 0;                               // > 0 while an operand / actual / subscript whose effects will be compared is being evaluated: statements then report their effects upwards
  std::vector<Cell> store;                        // globals, arrays, strings
  std::map<std::string, int> gsym;                // name -> index into pg.globals ; procs: 1000000+index
  std::vector<ArrRef> strRefs;
  uint64_t stepLimit = 200000; int depthLimit = 2000; size_t arrayLimit = 150000;
  uint64_t actSerial = 0;
  struct Frame { Proc *p; std::vector<Cell> cells; std::vector<ArrRef> arrs; uint64_t id; bool returned = false; int32_t ret = 0; };
  int depth = 0;

  [[noreturn]] void undef(const std::string &w) { throw Stop{Outcome::UNDEFINED, w}; }
  [[noreturn]] void unsup(const std::string &w) { throw Stop{Outcome::UNSUPPORTED, w}; }
  void tick() { if (++oc.steps > stepLimit) throw Stop{Outcome::BUDGET, "step budget"}; }

  // ---- static resolution
  struct LocalScope { std::map<std::string, std::pair<SymKind, int>> m; };
  void markCalls(Expr *e) {
    if (!e) return;
    if (e->l) markCalls(e->l.get()); if (e->r) markCalls(e->r.get());
    for (auto &a : e->args) markCalls(a.get());
    e->hasCall = e->k == Expr::CALL || e->k == Expr::SYSCALL || (e->l && e->l->hasCall) || (e->r && e->r->hasCall);
    for (auto &a : e->args) if (a->hasCall) e->hasCall = true;
  }
  int32_t constEval(Expr *e, const std::map<std::string, int32_t> &vals) {
    switch (e->k) {
    case Expr::NUM: return e->num;
    case Expr::NAME: { auto f = vals.find(e->name); if (f == vals.end()) unsup("val/array length expression is not constant (" + e->name + ")"); return f->second; }
    case Expr::UN: { int32_t v = constEval(e->l.get(), vals); if (e->op == T_MINUS) { if (v == INT32_MIN) undef("constant negation overflow"); return -v; } if (v != 0 && v != 1) undef("~ applied to non-boolean constant"); return !v; }
    case Expr::BIN: { int32_t a = constEval(e->l.get(), vals), b = constEval(e->r.get(), vals); return binop(e->op, a, b); }
    default: unsup("val/array length expression is not constant");
    }
  }
  int32_t binop(Tok op, int32_t a, int32_t b) {
    int64_t d1 = (int64_t)a - b, d2 = (int64_t)b - a;
    auto rel = [&]() { if (d1 < INT32_MIN || d1 > INT32_MAX || d2 < INT32_MIN || d2 > INT32_MAX) undef("relational operand difference overflows"); };
    switch (op) {
    case T_PLUS: { int64_t s = (int64_t)a + b; if (s < INT32_MIN || s > INT32_MAX) undef("addition overflow"); return (int32_t)s; }
    case T_MINUS: if (d1 < INT32_MIN || d1 > INT32_MAX) undef("subtraction overflow"); return (int32_t)d1;
    case T_EQ: return a == b; case T_NE: return a != b;
    case T_LS: rel(); return a < b; case T_LE: rel(); return a <= b; case T_GR: rel(); return a > b; case T_GE: rel(); return a >= b;
    case T_AND: if ((a != 0 && a != 1) || (b != 0 && b != 1)) undef("logical operator on non-boolean"); return a && b;
    case T_OR: if ((a != 0 && a != 1) || (b != 0 && b != 1)) undef("logical operator on non-boolean"); return a || b;
    default: unsup("operator");
    }
  }
  std::map<std::string, int32_t> gvals;
  void setup() {
    for (size_t i = 0; i < pg.globals.size(); i++) {
      Decl &d = pg.globals[i];
      if (gsym.count(d.name)) unsup("name declared twice: " + d.name);
      gsym[d.name] = (int)i;
      if (d.kind == S_VAL) { d.constVal = constEval(d.e.get(), gvals); gvals[d.name] = d.constVal; }
      else if (d.kind == S_VAR) { d.base = (int)store.size(); store.push_back(Cell()); }
      else { int32_t n = constEval(d.e.get(), gvals); if (n < 1) undef("array length < 1"); if ((size_t)n > arrayLimit) throw Stop{Outcome::BUDGET, "array too large"}; d.constVal = n; d.base = (int)store.size(); store.resize(store.size() + n); }
    }
    for (size_t i = 0; i < pg.procs.size(); i++) { if (gsym.count(pg.procs[i].name)) unsup("name declared twice: " + pg.procs[i].name); gsym[pg.procs[i].name] = 1000000 + (int)i; }
    for (auto &p : pg.procs) {
      LocalScope ls; int slot = 0; std::map<std::string, int32_t> vals = gvals;
      for (auto &f : p.formals) { if (ls.m.count(f.name)) unsup("formal declared twice"); f.slot = slot++; ls.m[f.name] = {f.kind, f.slot}; vals.erase(f.name); }
      for (auto &l : p.locals) {
        if (ls.m.count(l.name)) unsup("local declared twice");
        if (l.kind == S_VAL) { l.constVal = constEval(l.e.get(), vals); vals[l.name] = l.constVal; l.slot = -1; ls.m[l.name] = {S_VAL, -1000000}; }
        else { l.slot = slot++; ls.m[l.name] = {S_VAR, l.slot}; vals.erase(l.name); }
      }
      p.nslots = slot;
      resolveStmt(p.body.get(), p, ls, vals);
    }
  }
  void resolveStmt(Stmt *s, Proc &p, LocalScope &ls, const std::map<std::string, int32_t> &vals) {
    if (s->e) resolveExpr(s->e.get(), p, ls, vals);
    if (s->lhs) resolveExpr(s->lhs.get(), p, ls, vals);
    if (s->a) resolveStmt(s->a.get(), p, ls, vals);
    if (s->b) resolveStmt(s->b.get(), p, ls, vals);
    for (auto &x : s->seq) resolveStmt(x.get(), p, ls, vals);
  }
  void resolveName(Expr *e, LocalScope &ls, const std::map<std::string, int32_t> &vals) {
    auto f = ls.m.find(e->name);
    if (f != ls.m.end()) {
      e->scope = 1; e->symKind = f->second.first; e->slot = f->second.second;
      if (e->symKind == S_VAL) { e->num = vals.at(e->name); }
      return;
    }
    auto g = gsym.find(e->name);
    if (g == gsym.end()) unsup("unknown name " + e->name);
    e->scope = 0;
    if (g->second >= 1000000) { e->symKind = pg.procs[g->second - 1000000].func ? S_FUNC : S_PROC; e->slot = g->second - 1000000; }
    else { Decl &d = pg.globals[g->second]; e->symKind = d.kind; e->slot = g->second; if (d.kind == S_VAL) e->num = d.constVal; }
  }
  void resolveExpr(Expr *e, Proc &p, LocalScope &ls, const std::map<std::string, int32_t> &vals) {
    if (e->l) resolveExpr(e->l.get(), p, ls, vals);
    if (e->r) resolveExpr(e->r.get(), p, ls, vals);
    for (auto &a : e->args) resolveExpr(a.get(), p, ls, vals);
    if (e->k == Expr::NAME || e->k == Expr::SUB || e->k == Expr::CALL) resolveName(e, ls, vals);
    if (e->k == Expr::CALL && e->symKind == S_VAL) { e->k = Expr::SYSCALL; }   // a val name used as a call denotes that system call
    if (e->k == Expr::STR) {
      if (e->str.size() > 255) unsup("string longer than 255");
      for (unsigned char c : e->str) if (c >= 0x80) unsup("non-ASCII string");
      e->strId = (int)strRefs.size(); ArrRef r; r.base = (int)store.size(); r.ro = true;
      std::string b; b += (char)e->str.size(); b += e->str; while (b.size() % 4) b += '\0';
      r.len = (int)b.size() / 4;
      for (size_t i = 0; i < b.size(); i += 4) { Cell c; c.def = true; c.v = (int32_t)((uint8_t)b[i] | ((uint8_t)b[i + 1] << 8) | ((uint8_t)b[i + 2] << 16) | ((uint32_t)(uint8_t)b[i + 3] << 24)); store.push_back(c); }
      strRefs.push_back(r);
    }
    markCalls(e);
  }

  // ---- evaluation
  uint64_t cellId(Frame *f, int slot) { return (1ull << 40) + (f->id << 10) + (uint64_t)slot; }
  ArrRef arrayOf(Expr *e, Frame *f) {
    if (e->k == Expr::STR) return strRefs[e->strId];
    if (e->k != Expr::NAME && e->k != Expr::SUB) undef("array expected");
    if (e->symKind == S_ARRAY) { Decl &d = pg.globals[e->slot]; ArrRef r; r.base = d.base; r.len = d.constVal; return r; }
    if (e->symKind == S_ARRAYFORMAL) { ArrRef r = f->arrs[e->slot]; if (!r.valid()) undef("array formal unbound"); return r; }
    undef("name " + e->name + " is not an array");
  }
  // Evaluation where only zero / non-zero matters (operand of ~, and, or; condition of if / while).  The tool chain agrees with itself on this much for every value:
  // run-time code tests with BRZ, folding tests `== 0`.  The *number* an and/or yields is only fixed when it is 0 or comes from a 0/1 operand in result position (run-time
  // code leaves the deciding operand in areg, folding yields 0/1): otherwise the result is "some non-zero value" (ind = true), usable again only where truth matters.
  int32_t evalTruth(Expr *e, Frame *f, Eff &ef, bool &ind) {
    ind = false;
    if (e->k == Expr::BIN && (e->op == T_AND || e->op == T_OR)) {
      tick();
      bool ia = false; int32_t a = evalTruth(e->l.get(), f, ef, ia);
      bool at = ia || a != 0;
      if (e->op == T_AND) { if (!at) return 0; }
      else if (at) { if (!ia && a == 1) return 1; ind = true; return 1; }
      bool ib = false; int32_t b = evalTruth(e->r.get(), f, ef, ib);
      if (!ib && (b == 0 || b == 1)) return b;
      ind = true; return 1;
    }
    return eval(e, f, ef);
  }

  int32_t eval(Expr *e, Frame *f, Eff &ef) {
    tick();
    switch (e->k) {
    case Expr::NUM: return e->num;
    case Expr::STR: undef("string used as a value");
    case Expr::NAME:
      switch (e->symKind) {
      case S_VAL: return e->num;
      case S_VAR: if (e->scope == 0) { Decl &d = pg.globals[e->slot]; Cell &c = store[d.base]; if (!c.def) undef("read of unassigned global " + e->name); ef.r.push_back(d.base); return c.v; }
                  else { Cell &c = f->cells[e->slot]; if (!c.def) undef("read of unassigned local " + e->name); ef.r.push_back(cellId(f, e->slot)); return c.v; }
      case S_VALFORMAL: { Cell &c = f->cells[e->slot]; if (!c.def) undef("read of unassigned formal"); ef.r.push_back(cellId(f, e->slot)); return c.v; }
      default: undef("name " + e->name + " used as a value");
      }
    case Expr::SUB: {
      ArrRef a = arrayOf(e, f);
      int32_t i = eval(e->l.get(), f, ef);
      if (i < 0 || i >= a.len) undef("subscript out of range");
      Cell &c = store[a.base + i]; if (!c.def) undef("read of unassigned array element");
      ef.r.push_back(a.base + i); return c.v;
    }
    case Expr::UN: { if (e->op == T_NOT) { bool ind = false; int32_t v = evalTruth(e->l.get(), f, ef, ind); return (ind || v != 0) ? 0 : 1; }
                     int32_t v = eval(e->l.get(), f, ef); if (v == INT32_MIN) undef("negation overflow"); return -v; }
    case Expr::BIN: {
      if (e->op == T_AND || e->op == T_OR) {
        bool ind = false; int32_t v = evalTruth(e, f, ef, ind);
        if (ind) undef("value of a logical operator with a non-boolean operand used as a number (the implementation-independent part is only whether it is zero)");
        return v;
      }
      if (e->l->hasCall && e->r->hasCall) oc.openOrderCalls = true;
      effDepth++; Eff e1, e2; int32_t a = eval(e->l.get(), f, e1), b = eval(e->r.get(), f, e2); effDepth--;
      if (conflicts(e1, e2)) undef("operands of a binary operator do not commute (evaluation order is open)");
      ef.merge(e1); ef.merge(e2);
      return binop(e->op, a, b);
    }
    case Expr::CALL: { int32_t rv = 0; if (e->symKind != S_FUNC) undef(e->symKind == S_PROC ? "procedure called in an expression" : (e->symKind == S_FUNCFORMAL || e->symKind == S_PROCFORMAL) ? "call through a formal" : "call of a non-function"); call(e, f, ef, true, rv); return rv; }
    case Expr::SYSCALL: { int32_t rv = 0; if (!syscall(e, f, ef, rv)) undef("value of a system call that has none"); return rv; }
    }
    undef("expression");
  }
  std::vector<int32_t> evalActuals(Expr *e, Frame *f, Eff &ef, std::vector<ArrRef> *arrs, Proc *callee) {
    size_t n = e->args.size(); std::vector<int32_t> vals(n, 0); std::vector<Eff> effs(n);
    if (arrs) arrs->assign(n, ArrRef());
    effDepth++;
    for (size_t i = 0; i < n; i++) {
      bool wantArray = callee && callee->formals[i].kind == S_ARRAYFORMAL;
      if (callee && (callee->formals[i].kind == S_PROCFORMAL || callee->formals[i].kind == S_FUNCFORMAL)) unsup("proc/func formal");
      Expr *a = e->args[i].get();
      if (wantArray) { if (a->k == Expr::SUB || !(a->k == Expr::STR || (a->k == Expr::NAME && (a->symKind == S_ARRAY || a->symKind == S_ARRAYFORMAL)))) undef("array actual expected"); (*arrs)[i] = arrayOf(a, f); }
      else { if (a->k == Expr::STR || (a->k == Expr::NAME && (a->symKind == S_ARRAY || a->symKind == S_ARRAYFORMAL))) undef("array passed where a value is expected"); vals[i] = eval(a, f, effs[i]); }
    }
    effDepth--;
    for (size_t i = 0; i < n; i++) for (size_t j = i + 1; j < n; j++)
      if (e->args[i]->hasCall != e->args[j]->hasCall && conflicts(effs[i], effs[j])) undef("a call-free actual and a call-containing actual do not commute");
    for (auto &x : effs) ef.merge(x);
    return vals;
  }
  // returns true if the call yields a value
  bool syscall(Expr *e, Frame *f, Eff &ef, int32_t &rv) {
    int id = e->k == Expr::SYSCALL && e->name.empty() ? e->num : e->num;
    if (id < 0 || id > 2) unsup("invalid system call");
    auto vals = evalActuals(e, f, ef, nullptr, nullptr);
    ef.io = true;
    if (id == 0) { if (vals.size() != 1) unsup("exit takes one argument"); oc.exitValue = vals[0]; throw Stop{Outcome::OK, "exit"}; }
    if (id == 1) {
      if (vals.size() != 2) unsup("write takes two arguments");
      uint32_t s = (uint32_t)vals[1]; if (s >= 0x80000000u) undef("stream number with the sign bit set");
      char c = (char)(vals[0] & 0xFF);
      if (s < 256) oc.out += c; else oc.files[(s >> 8) & 7] += c;
      return false;
    }
    if (vals.size() != 1) unsup("read takes one argument");
    if ((uint32_t)vals[0] >= 256) unsup("read from a file stream");
    oc.reads++;
    if (inPos < input.size()) rv = (uint8_t)input[inPos++]; else { rv = 255; oc.readPastEnd = true; }
    oc.consumed = inPos;
    return true;
  }
  void call(Expr *e, Frame *f, Eff &ef, bool wantFunc, int32_t &rv) {
    Proc &p = pg.procs[e->slot];
    if (p.func != wantFunc) undef(wantFunc ? "procedure called as a function" : "function called as a procedure");
    if (e->args.size() != p.formals.size()) undef("wrong number of actuals for " + p.name);
    std::vector<ArrRef> arrs; auto vals = evalActuals(e, f, ef, &arrs, &p);
    if (++depth > depthLimit) throw Stop{Outcome::BUDGET, "call depth"};
    if (depth > oc.maxDepth) oc.maxDepth = depth;
    oc.calls++; if (oc.callTrace.size() < 4096) oc.callTrace.push_back(p.name);
    Frame nf; nf.p = &p; nf.id = ++actSerial; nf.cells.resize(p.nslots); nf.arrs.resize(p.nslots);
    for (size_t i = 0; i < p.formals.size(); i++) { if (p.formals[i].kind == S_ARRAYFORMAL) nf.arrs[i] = arrs[i]; else { nf.cells[i].v = vals[i]; nf.cells[i].def = true; } }
    exec(p.body.get(), &nf, ef);
    depth--;
    if (p.func) { if (!nf.returned) undef("function " + p.name + " ended without return"); rv = nf.ret; }
    else if (nf.returned) undef("return executed in procedure " + p.name);
  }
  // returns false when the activation has returned
  bool exec(Stmt *s, Frame *f, Eff &ef) {
    tick();
    switch (s->k) {
    case Stmt::SKIP: return true;
    case Stmt::STOP: oc.exitValue = 0; throw Stop{Outcome::OK, "stop"};
    case Stmt::RETURN: { int32_t v = eval(s->e.get(), f, ef); f->returned = true; f->ret = v; return false; }
    case Stmt::IF: { bool ind = false; int32_t c = evalTruth(s->e.get(), f, ef, ind); return exec((ind || c != 0) ? s->a.get() : s->b.get(), f, ef); }
    case Stmt::WHILE: while (true) { Eff e1; bool ind = false; int32_t c = evalTruth(s->e.get(), f, e1, ind); if (effDepth > 0) ef.merge(e1); if (!ind && c == 0) return true; Eff e2; bool go = exec(s->a.get(), f, e2); if (effDepth > 0) ef.merge(e2); if (!go) return false; }
    case Stmt::SEQ: for (auto &x : s->seq) { Eff e1; bool go = exec(x.get(), f, e1); if (effDepth > 0) ef.merge(e1); if (!go) return false; } return true;
    case Stmt::CALL: {
      Expr *e = s->e.get(); int32_t rv;
      if (e->k == Expr::SYSCALL) { syscall(e, f, ef, rv); return true; }
      if (e->symKind != S_PROC) undef(e->symKind == S_FUNC ? "function called as a statement" : "call of something that is not a procedure");
      call(e, f, ef, false, rv); return true;
    }
    case Stmt::ASS: {
      Expr *l = s->lhs.get();
      if (l->k == Expr::NAME) {
        if (l->symKind != S_VAR) unsup("assignment to something that is not a variable");
        int32_t v = eval(s->e.get(), f, ef);
        if (l->scope == 0) { Decl &d = pg.globals[l->slot]; store[d.base].v = v; store[d.base].def = true; ef.w.push_back(d.base); }
        else { f->cells[l->slot].v = v; f->cells[l->slot].def = true; ef.w.push_back(cellId(f, l->slot)); }
        return true;
      }
      if (l->k != Expr::SUB) unsup("assignment target");
      ArrRef a = arrayOf(l, f);
      effDepth++; Eff e1, e2; int32_t i = eval(l->l.get(), f, e1); int32_t v = eval(s->e.get(), f, e2); effDepth--;
      if (conflicts(e1, e2)) undef("subscript and assigned expression do not commute");
      ef.merge(e1); ef.merge(e2);
      if (i < 0 || i >= a.len) undef("subscript out of range");
      if (a.ro) undef("assignment into a string");
      store[a.base + i].v = v; store[a.base + i].def = true; ef.w.push_back(a.base + i);
      return true;
    }
    }
    return true;
  }
};

// Parse + run.  The program text is parsed by RefX's own parser.
inline Outcome run(const std::string &src, const std::string &input, uint64_t stepLimit = 200000, int depthLimit = 2000) {
  Interp I; I.input = input; I.stepLimit = stepLimit; I.depthLimit = depthLimit;
  {
    Parser P(src, I.pg);
    if (!P.program()) { I.oc.status = Outcome::SYNTAX; I.oc.reason = P.err; return I.oc; }
  }
  try {
    I.setup();
    auto g = I.gsym.find("main");
    if (g == I.gsym.end() || g->second < 1000000) throw Stop{Outcome::UNSUPPORTED, "no procedure main"};
    Proc &m = I.pg.procs[g->second - 1000000];
    if (m.func || !m.formals.empty()) throw Stop{Outcome::UNSUPPORTED, "main must be a procedure without formals"};
    Interp::Frame f; f.p = &m; f.id = ++I.actSerial; f.cells.resize(m.nslots); f.arrs.resize(m.nslots);
    I.depth = 1; I.oc.maxDepth = 1; I.oc.callTrace.push_back("main");
    Eff ef;
    I.exec(m.body.get(), &f, ef);
    if (f.returned) throw Stop{Outcome::UNDEFINED, "return executed in main"};
    I.oc.exitValue = 0;
  } catch (const Stop &s) {
    I.oc.status = s.s; I.oc.reason = s.why;
  }
  I.oc.consumed = I.inPos;
  return I.oc;
}

}  // namespace refx
