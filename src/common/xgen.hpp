// X program corpus (index-addressable families) for C01 and the properties that reuse its programs (C06, C08, C11, C15, C17).
#pragma once
#include <cstdint>
#include <functional>
#include <string>
#include <vector>

namespace xgen {

struct TExpr { std::string s; bool isBool; std::string shape; bool call; };

// ---- expression lists by number of operator nodes
struct ExprSets {
  std::vector<std::vector<TExpr>> ints, bools;  // [k]
  static std::string par(const TExpr &e) { return e.shape.size() > 1 || e.s[0] == '-' ? "(" + e.s + ")" : e.s; }
  void build(int maxK, const std::vector<TExpr> &intLeaves, const std::vector<TExpr> &boolLeaves) {
    ints.assign(maxK + 1, {}); bools.assign(maxK + 1, {});
    ints[0] = intLeaves; bools[0] = boolLeaves;
    static const char *IOPS[] = {"+", "-"}; static const char *ROPS[] = {"=", "~=", "<", "<=", ">", ">="}; static const char *LOPS[] = {"and", "or"};
    for (int k = 1; k <= maxK; k++) {
      // unary
      for (auto &e : ints[k - 1]) ints[k].push_back({"-" + wrap(e), false, "neg(" + e.shape + ")", e.call});
      for (auto &e : bools[k - 1]) bools[k].push_back({"~" + wrap(e), true, "not(" + e.shape + ")", e.call});
      for (int i = 0; i <= k - 1; i++) {
        int j = k - 1 - i;
        for (auto &a : ints[i]) for (auto &b : ints[j]) {
          for (auto op : IOPS) ints[k].push_back({wrap(a) + " " + op + " " + wrap(b), false, std::string(op) + "(" + a.shape + "," + b.shape + ")", a.call || b.call});
          for (auto op : ROPS) bools[k].push_back({wrap(a) + " " + op + " " + wrap(b), true, std::string(op) + "(" + a.shape + "," + b.shape + ")", a.call || b.call});
        }
        for (auto &a : bools[i]) for (auto &b : bools[j]) for (auto op : LOPS) bools[k].push_back({wrap(a) + " " + op + " " + wrap(b), true, std::string(op) + "(" + a.shape + "," + b.shape + ")", a.call || b.call});
      }
    }
  }
  // an operand must be an <element>: leaves are, anything with an operator needs parentheses
  static std::string wrap(const TExpr &e) { return e.shape.find('(') != std::string::npos ? "(" + e.s + ")" : e.s; }
};

struct Family { std::string name; uint64_t count; std::function<std::string(uint64_t, std::string *)> make; };

struct Corpus {
  std::vector<Family> fams; std::vector<uint64_t> prefix; uint64_t total = 0;
  ExprSets E, E3, Es;  // F1 expressions (<=2 operators), F1k3 (3 operators, reduced leaves)
  void add(Family f) { prefix.push_back(total); total += f.count; fams.push_back(std::move(f)); }
  std::string make(uint64_t idx, std::string *shape = nullptr, std::string *family = nullptr) const {
    size_t i = std::upper_bound(prefix.begin(), prefix.end(), idx) - prefix.begin() - 1;
    if (family) *family = fams[i].name;
    return fams[i].make(idx - prefix[i], shape);
  }

  static std::string prelude() {
    return "val c = 3; val big = 70000; var g; var h; array a[4];\n"
           "func f(val n) is return n + 1\n"
           "func id(val n) is return n\n"
           "func f2(val u, val v) is return (u + u) + ((v + v) + v)\n"
           "proc pr(val v) is 0(v)\n";
  }
  // body statement list S runs inside t(val p, array fa) with locals x,i,b initialised; main calls t(20, a)
  static std::string wrapProc(const std::string &S) {
    return prelude() + "proc t(val p, array fa) is var x; var i; var b; var y;\n{ x := 5; i := 2; b := 1; y := 0; g := 9; h := 0; a[0] := 10; a[1] := 11; a[2] := 12; a[3] := 13;\n  " + S + " }\nproc main() is t(20, a)\n";
  }
  // like wrapProc but with an extra local j = 1 (declared by textual substitution into the standard wrapper)
  static std::string wrapProcJ(const std::function<std::string(const std::string &)> &prog, const std::string &e) {
    std::string p = prog(e);
    size_t a = p.find("var y;"); if (a != std::string::npos) p.insert(a + 6, " var j;");
    size_t b = p.find("y := 0;"); if (b != std::string::npos) p.insert(b + 7, " j := 1;");
    return p;
  }
  static std::string wrapFunc(const std::string &retExpr) {
    return prelude() + "func t(val p, array fa) is var x; var i; var b; var y;\n{ x := 5; i := 2; b := 1; y := 0; g := 9; h := 0; a[0] := 10; a[1] := 11; a[2] := 12; a[3] := 13;\n  return " + retExpr + " }\nproc main() is 0(t(20, a))\n";
  }

  void build(bool thorough) {
    // ------------------------------------------------------------ F1: expressions in contexts
    std::vector<TExpr> il = {{"0", false, "k", false}, {"1", false, "k", false}, {"2", false, "k", false}, {"15", false, "k", false}, {"16", false, "k", false}, {"65535", false, "k", false},
                             {"65536", false, "K", false}, {"x", false, "l", false}, {"g", false, "g", false}, {"p", false, "p", false}, {"c", false, "v", false},
                             {"a[1]", false, "ac", false}, {"a[i]", false, "ai", false}, {"2(0)", false, "rd", true}, {"f(x)", false, "fn", true}, {"fa[i]", false, "fi", false}};
    std::vector<TExpr> bl = {{"true", true, "k", false}, {"false", true, "k", false}, {"b", true, "l", false}};
    std::vector<TExpr> ilq = {il[0], il[1], il[5], il[6], il[7], il[8], il[12], il[14], il[13]};
    int k = 2;
    E.build(k, thorough ? il : ilq, bl);
    struct Ctx { const char *name; bool wantBool; std::function<std::string(const std::string &)> prog; };
    static const std::vector<Ctx> ctxs = {
        {"exit-arg", false, [](const std::string &e) { return wrapProc("0(" + e + ")"); }},
        {"assign-local", false, [](const std::string &e) { return wrapProc("y := " + e + "; 0(y)"); }},
        {"assign-global", false, [](const std::string &e) { return wrapProc("h := " + e + "; 0(h)"); }},
        {"assign-element", false, [](const std::string &e) { return wrapProc("a[1] := " + e + "; 0(a[1])"); }},
        {"subscript-read", false, [](const std::string &e) { return wrapProc("0(a[" + e + "])"); }},
        {"subscript-write", false, [](const std::string &e) { return wrapProc("a[" + e + "] := 77; 0((a[0] + a[1]) + (a[2] + a[3]))"); }},
        {"write-arg", false, [](const std::string &e) { return wrapProc("1(" + e + ", 0); 0(0)"); }},
        {"return", false, [](const std::string &e) { return wrapFunc(e); }},
        {"func-actual", false, [](const std::string &e) { return wrapProc("0(id(" + e + "))"); }},
        {"proc-actual", false, [](const std::string &e) { return wrapProc("pr(" + e + ")"); }},
        {"actual-first", false, [](const std::string &e) { return wrapProc("0(f2(" + e + ", 1))"); }},
        {"actual-second", false, [](const std::string &e) { return wrapProc("0(f2(1, " + e + "))"); }},
        {"actual-after-call", false, [](const std::string &e) { return wrapProc("0(f2(id(1), " + e + "))"); }},
        {"actual-before-call", false, [](const std::string &e) { return wrapProc("0(f2(" + e + ", id(1)))"); }},
        {"operand-of-sum-with-call", false, [](const std::string &e) { return wrapProc("0(id(4) + (" + e + "))"); }},
        {"if-cond", true, [](const std::string &e) { return wrapProc("if " + e + " then 0(1) else 0(2)"); }},
        {"while-cond", true, [](const std::string &e) { return wrapProc("while (" + e + ") and (y < 3) do y := y + 1; 0(y)"); }},
        {"bool-exit", true, [](const std::string &e) { return wrapProc("0(" + e + ")"); }},
        {"bool-assign", true, [](const std::string &e) { return wrapProc("y := " + e + "; if y then 0(7) else 0(8)"); }},
    };
    for (int kk = 0; kk <= k; kk++) for (size_t ci = 0; ci < ctxs.size(); ci++) {
      const Ctx &cx = ctxs[ci];
      const std::vector<TExpr> *lst = cx.wantBool ? &E.bools[kk] : &E.ints[kk];
      if (lst->empty()) continue;
      // quick: contexts beyond the first few only with k<=1 to bound the tier
      if (!thorough && kk == 2 && ci >= 4 && ci != 12 && ci != 15) continue;
      add({"F1:" + std::string(cx.name) + ":k" + std::to_string(kk), (uint64_t)lst->size(),
           [lst, &cx](uint64_t i, std::string *shape) { if (shape) *shape = std::string(cx.name) + ":" + (*lst)[i].shape; return cx.prog((*lst)[i].s); }});
    }
    // ------------------------------------------------------------ F1s: subscript expressions that stay in range (small leaves), on global and formal arrays, read and write
    {
      Es.build(2, {{"0", false, "k", false}, {"1", false, "k", false}, {"2", false, "k", false}, {"3", false, "k", false}, {"i", false, "l", false}, {"j", false, "l", false}, {"c", false, "v", false}, {"id(1)", false, "fn", true}}, {});
      static const std::vector<Ctx> sctx = {
          {"sub-read", false, [](const std::string &e) { return wrapProc("0(a[" + e + "])"); }},
          {"sub-read-formal", false, [](const std::string &e) { return wrapProc("0(fa[" + e + "])"); }},
          {"sub-write", false, [](const std::string &e) { return wrapProc("a[" + e + "] := 77; 0((a[0] + a[1]) + (a[2] + (a[3] + a[3])))"); }},
          {"sub-write-formal", false, [](const std::string &e) { return wrapProc("fa[" + e + "] := x + 70; 0((a[0] + a[1]) + (a[2] + (a[3] + a[3])))"); }},
          {"sub-both", false, [](const std::string &e) { return wrapProc("a[" + e + "] := a[3 - (" + e + ")] + 1; 0((a[0] + a[1]) + (a[2] + (a[3] + a[3])))"); }},
      };
      for (int kk = 1; kk <= 2; kk++) for (auto &cx : sctx) {
        const std::vector<TExpr> *lst = &Es.ints[kk];
        add({"F1s:" + std::string(cx.name) + ":k" + std::to_string(kk), (uint64_t)lst->size(), [lst, &cx](uint64_t i, std::string *shape) { if (shape) *shape = std::string(cx.name) + ":" + (*lst)[i].shape; return wrapProcJ(cx.prog, (*lst)[i].s); }});
      }
    }
    // ------------------------------------------------------------ F1k3 (thorough): three operators over a reduced leaf set, key contexts
    if (thorough) {
      E3.build(3, {il[0], il[6], il[7], il[12], il[14]}, {bl[0], bl[2]});
      for (size_t ci : {(size_t)0, (size_t)1, (size_t)3, (size_t)4, (size_t)12, (size_t)13, (size_t)15, (size_t)18}) {
        const Ctx &cx = ctxs[ci];
        const std::vector<TExpr> *lst = cx.wantBool ? &E3.bools[3] : &E3.ints[3];
        add({"F1k3:" + std::string(cx.name) + ":k3", (uint64_t)lst->size(), [lst, &cx](uint64_t i, std::string *shape) { if (shape) *shape = std::string(cx.name) + ":" + (*lst)[i].shape; return cx.prog((*lst)[i].s); }});
      }
    }
    // ------------------------------------------------------------ F2: call shapes
    {
      struct Act { const char *s; bool arr; const char *cls; };
      static const std::vector<Act> acts = {{"1", false, "k"}, {"70000", false, "K"}, {"x", false, "l"}, {"g", false, "g"}, {"p", false, "p"}, {"(x - (i + 1))", false, "tmp"}, {"id(3)", false, "call"},
                                            {"id(id(4))", false, "call2"}, {"(id(2) + (x - i))", false, "call+tmp"}, {"a[i]", false, "ai"}, {"a", true, "arr"}, {"fa", true, "farr"}, {"\"ab\"", true, "str"},
                                            {"(x - (i - (g - p)))", false, "tmp2"}, {"f2(x, id(1))", false, "call3"}, {"a[0]", false, "a0"}, {"a[1]", false, "a1"}, {"a[2]", false, "a2"}, {"a[3]", false, "a3"}, {"fa[2]", false, "fa2"}, {"a[id(2)]", false, "acall"}, {"fa[id(1) + 1]", false, "facall"}};
      auto nActs = std::make_shared<std::vector<Act>>(acts);
      // callee for a kind vector: returns weighted sum making every formal observable
      auto callee = [](const std::string &name, const std::vector<bool> &arr, bool func) {
        std::string s = std::string(func ? "func " : "proc ") + name + "(";
        for (size_t i = 0; i < arr.size(); i++) s += std::string(i ? ", " : "") + (arr[i] ? "array q" : "val q") + std::to_string(i);
        s += ") is ";
        std::string sum = "100";
        for (size_t i = 0; i < arr.size(); i++) { std::string t = arr[i] ? "q" + std::to_string(i) + "[0]" : "q" + std::to_string(i); for (size_t r = 0; r < i; r++) t = "(" + t + " + " + t + ")"; sum = "(" + sum + " + " + t + ")"; }
        s += func ? "return " + sum : "0(" + sum + ")";
        return s + "\n";
      };
      struct CallCtx { const char *name; bool func; std::function<std::string(const std::string &)> stmt; };
      static const std::vector<CallCtx> cctx = {
          {"proc-stmt", false, [](const std::string &c) { return c; }},
          {"func-exit", true, [](const std::string &c) { return "0(" + c + ")"; }},
          {"func-lhs-plus", true, [](const std::string &c) { return "0(" + c + " + x)"; }},
          {"func-rhs-plus", true, [](const std::string &c) { return "0(x + " + c + ")"; }},
          {"func-rhs-minus", true, [](const std::string &c) { return "0(x - " + c + ")"; }},
          {"func-lhs-minus-temp", true, [](const std::string &c) { return "0(" + c + " - (x - i))"; }},
          {"func-eq", true, [](const std::string &c) { return "if " + c + " = 3 then 0(1) else 0(2)"; }},
          {"func-less", true, [](const std::string &c) { return "if x < " + c + " then 0(1) else 0(2)"; }},
          {"func-and", true, [](const std::string &c) { return "if (x = 5) and (" + c + " > 0) then 0(1) else 0(2)"; }},
          {"func-actual", true, [](const std::string &c) { return "0(f2(" + c + ", x))"; }},
          {"func-actual2", true, [](const std::string &c) { return "0(f2(x - (i + 1), " + c + "))"; }},
          {"func-assign", true, [](const std::string &c) { return "y := " + c + "; 0(y)"; }},
          {"func-element", true, [](const std::string &c) { return "a[i] := " + c + "; 0(a[2])"; }},
          {"func-subscript", true, [](const std::string &c) { return "0(a[" + c + " - " + c + "])"; }},
      };
      // quick uses a 12-element subset: the first 9 kinds plus a[i], a[1], a[2]
      auto quickActs = std::make_shared<std::vector<Act>>(std::vector<Act>(acts.begin(), acts.begin() + 10)); quickActs->push_back(acts[16]); quickActs->push_back(acts[17]); quickActs->push_back(acts[20]);
      if (!thorough) nActs = quickActs;
      int maxAr = 3; size_t na = nActs->size();
      for (int ar = 0; ar <= maxAr; ar++) {
        uint64_t combos = 1; for (int i = 0; i < ar; i++) combos *= na;
        for (size_t ci = 0; ci < cctx.size(); ci++) {
          if (!thorough && ar == 3 && ci > 3) continue;
          const CallCtx *cc = &cctx[ci];
          add({"F2:" + std::string(cc->name) + ":arity" + std::to_string(ar), combos, [=](uint64_t idx, std::string *shape) {
                 std::vector<bool> arr; std::string args, sh; uint64_t r = idx;
                 for (int i = 0; i < ar; i++) { const Act &a = (*nActs)[r % na]; r /= na; arr.push_back(a.arr); args += std::string(i ? ", " : "") + a.s; sh += std::string(i ? "," : "") + a.cls; }
                 if (shape) *shape = std::string(cc->name) + "(" + sh + ")";
                 std::string name = "cal";
                 return prelude() + callee(name, arr, cc->func) + "proc t(val p, array fa) is var x; var i; var y;\n{ x := 5; i := 2; y := 0; g := 9; h := 0; a[0] := 10; a[1] := 11; a[2] := 12; a[3] := 13;\n  " +
                        cc->stmt(name + "(" + args + ")") + "; 0(55) }\nproc main() is t(20, a)\n";
               }});
        }
      }
      // system calls with every actual kind (value-typed only)
      std::vector<std::string> vals; for (auto &a : acts) if (!a.arr) vals.push_back(a.s);
      auto vs = std::make_shared<std::vector<std::string>>(vals);
      add({"F2:syscall-write", (uint64_t)vals.size() * vals.size(), [=](uint64_t i, std::string *shape) { if (shape) *shape = "write"; return wrapProc("1(" + (*vs)[i % vs->size()] + ", " + "(" + (*vs)[i / vs->size()] + ") - (" + (*vs)[i / vs->size()] + ")); 1('!', 0); 0(0)"); }});
      add({"F2:syscall-exit", (uint64_t)vals.size(), [=](uint64_t i, std::string *shape) { if (shape) *shape = "exit"; return wrapProc("0(" + (*vs)[i] + ")"); }});
      add({"F2:syscall-read", (uint64_t)vals.size(), [=](uint64_t i, std::string *shape) { if (shape) *shape = "read"; return wrapProc("y := 2((" + (*vs)[i] + ") - (" + (*vs)[i] + ")); 1(y, 0); 0(2(0))"); }});
    }
    // ------------------------------------------------------------ F3: statement structure
    {
      static const std::vector<std::string> atoms = {"skip", "x := x + 1", "g := g + x", "a[i] := x", "1(x + '0', 0)", "cnt()", "i := 3 - i", "h := h + 1", "stop", "0(x)"};
      static const std::vector<std::string> conds = {"true", "false", "x < 7", "x = g", "2(0) = 'A'", "(x < 8) and (g > x)", "~(h = 0)"};
      auto lists = std::make_shared<std::vector<std::vector<std::string>>>();
      int maxS = thorough ? 5 : 4;
      lists->resize(maxS + 1);
      (*lists)[1] = atoms;
      for (int s = 2; s <= maxS; s++) {
        auto &out = (*lists)[s];
        // if C then A else B : sizes 1 + |A| + |B|
        for (int i = 1; i <= s - 2; i++) { int j = s - 1 - i; if (j < 1) continue; for (auto &c : conds) for (auto &A : (*lists)[i]) for (auto &B : (*lists)[j]) { if (out.size() > (thorough ? 3000000u : 400000u)) break; out.push_back("if " + c + " then " + A + " else " + B); } }
        // bounded loop with body of size s-1
        for (auto &c : {std::string("y < 2"), std::string("(y < 3) and (x < 9)")}) for (auto &A : (*lists)[s - 1]) out.push_back("while " + c + " do { " + A + "; y := y + 1 }");
        // sequence A ; B
        for (int i = 1; i <= s - 1; i++) { int j = s - i; if (j < 1 || i + j != s) continue; if (i > 1) continue; for (auto &A : (*lists)[i]) for (auto &B : (*lists)[j]) { if (out.size() > (thorough ? 3000000u : 400000u)) break; out.push_back("{ " + A + "; " + B + " }"); } }
      }
      // statements inside a FUNCTION body, with `return` atoms at every nesting position (branch to the exit label from inside if/while/sequence)
      {
        static const std::vector<std::string> fatoms = {"skip", "x := x + 1", "g := g + x", "return x", "return g + (x + 1)", "return w(x)", "cnt()", "a[i] := x"};
        static const std::vector<std::string> fconds = {"true", "false", "x < 7", "w(x) = 6", "(x < 8) and (g > x)"};
        auto fl = std::make_shared<std::vector<std::vector<std::string>>>();
        int maxF = thorough ? 4 : 3; fl->resize(maxF + 1); (*fl)[1] = fatoms;
        for (int s2 = 2; s2 <= maxF; s2++) {
          auto &out = (*fl)[s2];
          for (int i = 1; i <= s2 - 2; i++) { int j = s2 - 1 - i; if (j < 1) continue; for (auto &c : fconds) for (auto &A : (*fl)[i]) for (auto &B : (*fl)[j]) out.push_back("if " + c + " then " + A + " else " + B); }
          for (auto &A : (*fl)[s2 - 1]) out.push_back("while y < 2 do { " + A + "; y := y + 1 }");
          for (auto &A : (*fl)[1]) for (auto &B : (*fl)[s2 - 1]) out.push_back("{ " + A + "; " + B + " }");
        }
        for (int s2 = 1; s2 <= maxF; s2++)
          add({"F3f:func-body:size" + std::to_string(s2), (uint64_t)(*fl)[s2].size(), [fl, s2](uint64_t i, std::string *shape) {
                 if (shape) { const std::string &t = (*fl)[s2][i]; *shape = "func-body:" + t.substr(0, t.find(' ')); }
                 return "var g; var n; array a[4];\nproc cnt() is n := n + 1\nfunc w(val q) is var k; { k := q + 1; return k }\n"
                        "func t(val p, val x0) is var x; var i; var y;\n{ x := x0; i := 2; y := 0;\n  " + (*fl)[s2][i] + ";\n  return (y + y) + (x + 100) }\n"
                        "proc main() is var r; { g := 6; n := 0; a[2] := 0; r := t(1, 5) + t(2, 5); 1(r, 0); 1(g + '0', 0); 1(n + '0', 0); 1(a[2] + '0', 0); 0(r) }\n";
               }});
      }
      // the same statements in a program whose procedures all return (main included): exercises epilogues and the exit stub
      for (int s = 1; s <= std::min(maxS, 4); s++) {
        auto lst = lists;
        add({"F3r:stmt-return:size" + std::to_string(s), (uint64_t)(*lists)[s].size(), [lst, s](uint64_t i, std::string *shape) {
               if (shape) { const std::string &t = (*lst)[s][i]; *shape = "stmt-return:" + t.substr(0, t.find(' ')); }
               return "val c = 3; var g; var h; var n; array a[4];\nproc cnt() is n := n + 1\nfunc w(val q) is var k; { k := q + 1; return k }\n"
                      "proc t(val p) is var x; var i; var y;\n{ x := 5; i := 2; y := 0; g := 6; h := 0; n := 0; a[0] := 0; a[1] := 0; a[2] := 0; a[3] := 0;\n  " + (*lst)[s][i] +
                      ";\n  1(w(x) + '0', 0); 1(g + '0', 0); 1(n + '0', 0) }\nproc main() is { t(1); t(2) }\n";
             }});
      }
      for (int s = 1; s <= maxS; s++) {
        auto lst = lists;
        add({"F3:stmt:size" + std::to_string(s), (uint64_t)(*lists)[s].size(), [lst, s](uint64_t i, std::string *shape) {
               if (shape) { const std::string &t = (*lst)[s][i]; *shape = "stmt:" + t.substr(0, t.find(' ')); }
               return "val c = 3; var g; var h; var n; array a[4];\nproc cnt() is n := n + 1\n"
                      "proc t(val p) is var x; var i; var y;\n{ x := 5; i := 2; y := 0; g := 6; h := 0; n := 0; a[0] := 0; a[1] := 0; a[2] := 0; a[3] := 0;\n  " + (*lst)[s][i] +
                      ";\n  1(x + '0', 0); 1(g + '0', 0); 1(h + '0', 0); 1(n + '0', 0); 1(i + '0', 0); 1(a[2] + '0', 0); 1(a[1] + '0', 0); 0(y) }\nproc main() is t(1)\n";
             }});
      }
    }
    // ------------------------------------------------------------ F4 scoping, F5 recursion, F6 strings, F7 names (small hand-parametrised sets)
    {
      auto progs = std::make_shared<std::vector<std::pair<std::string, std::string>>>();
      auto P = [&](const std::string &shape, const std::string &src) { progs->push_back({shape, src}); };
      // F4: the same name at global / formal / local level in every combination, each made observable
      for (int gk = 0; gk < 3; gk++) for (int inner = 0; inner < 4; inner++) for (int third = 0; third < 3; third++) {
        std::string s;
        s += gk == 0 ? "var n;\n" : gk == 1 ? "val n = 4;\n" : "array n[2];\n";
        s += "var m;\n";
        std::string use = inner == 0 ? (gk == 2 ? "n[1]" : "n") : "n";
        // q sees: inner 0 = global n, 1 = formal n, 2 = local var n, 3 = local val n
        s += std::string("func q(") + (inner == 1 ? "val n" : "val z") + ") is " + (inner == 2 ? "var n; { n := 30; return " + use + " + m }" : inner == 3 ? "val n = 40; return " + use + " + m" : "return " + use + " + m") + "\n";
        s += std::string("func r(val m) is ") + (third == 0 ? "return m + 1" : third == 1 ? "var q; { q := m; return q + q }" : "return q(m)") + "\n";
        s += "proc main() is { m := 2; ";
        if (gk == 0) s += "n := 10; "; if (gk == 2) s += "n[1] := 20; ";
        s += "0((q(100) + q(100)) + r(7)) }\n";
        P("scope", s);
      }
      // F5: recursion depth and shapes
      for (int n = 0; n <= (thorough ? 12 : 6); n++) {
        P("rec:fac", "func fac(val n) is if n = 0 then return 1 else return n + fac(n - 1)\nproc main() is 0(fac(" + std::to_string(n) + "))\n");
        P("rec:fib", "func fib(val n) is if n < 2 then return n else return fib(n - 1) + fib(n - 2)\nproc main() is 0(fib(" + std::to_string(n) + "))\n");
        P("rec:mutual", "func ev(val n) is if n = 0 then return 1 else return od(n - 1)\nfunc od(val n) is if n = 0 then return 0 else return ev(n - 1)\nproc main() is 0(ev(" + std::to_string(n) + "))\n");
        P("rec:array-acc", "array s[16];\nproc fill(val n) is if n < 0 then skip else { s[n] := n + n; fill(n - 1) }\nfunc sum(val n) is if n < 0 then return 0 else return s[n] + sum(n - 1)\nproc main() is { fill(" + std::to_string(n) + "); 0(sum(" + std::to_string(n) + ")) }\n");
        P("rec:frames", "func dp(val n, val a1, val a2) is var t; var u; { t := a1 + n; u := a2 - n; if n = 0 then return t - u else return dp(n - 1, t, u) + (t - (u + 1)) }\nproc main() is 0(dp(" + std::to_string(n) + ", 3, 4))\n");
        P("rec:proc-depth", "var d;\nproc down(val n) is var k; { k := n; if n = 0 then skip else down(n - 1); d := d + k }\nproc main() is { d := 0; down(" + std::to_string(n * 3) + "); 0(d) }\n");
      }
      // F6: strings of length <= 5 over {a, b, escape}, passed as array actual, indexed per word, written out
      {
        std::vector<std::string> al = {"a", "b", "\\n"};
        int maxL = thorough ? 5 : 4;
        std::vector<std::string> cur = {""};
        for (int L = 0; L <= maxL; L++) {
          for (auto &str : cur) {
            int words = (L + 1 + 3) / 4;
            for (int w = 0; w < words; w++)
              P("str:len" + std::to_string(L), "func at(array s, val k) is return s[k]\nproc main() is { 1('s', 0); 0(at(\"" + str + "\", " + std::to_string(w) + ")) }\n");
            P("str:direct:len" + std::to_string(L), "proc show(array s) is 0(s[0])\nproc main() is show(\"" + str + "\")\n");
          }
          std::vector<std::string> nxt; for (auto &str : cur) for (auto &c : al) nxt.push_back(str + c); cur.swap(nxt);
        }
      }
      // F6b: long strings (up to the 255 the length byte can hold): length word, a middle word and the last word, and two literals side by side
      for (int L : {6, 7, 8, 9, 12, 16, 31, 32, 33, 63, 64, 65, 100, 127, 128, 129, 200, 252, 253, 254, 255}) {
        std::string str; for (int i = 0; i < L; i++) str += (char)('a' + (i * 7) % 26);
        int words = (L + 1 + 3) / 4;
        for (int w : {0, words / 2, words - 1})
          P("str:long:len" + std::to_string(L), "func at(array s, val k) is return s[k]\nproc main() is 0(at(\"" + str + "\", " + std::to_string(w) + "))\n");
        P("str:long:two:len" + std::to_string(L), "func at(array s, array t, val k) is return s[k] - t[0]\nproc main() is 0(at(\"" + str + "\", \"" + str.substr(0, L / 2) + "\", " + std::to_string(words - 1) + "))\n");
      }
      // F7: identifiers the code generator also invents or reserves
      for (const char *nm : {"lab0", "lab1", "lab2", "lab5", "lab10", "start", "exit", "main2", "LDAC", "BR", "DATA", "PROC", "OPR", "SVC", "x_1", "const0", "string0", "lab"}) {
        std::string n = nm;
        P("name:proc", "proc " + n + "() is 1('p', 0)\nproc main() is { " + n + "(); 0(3) }\n");
        P("name:func", "func " + n + "(val v) is return v + 1\nproc main() is 0(" + n + "(4))\n");
        P("name:global", "var " + n + ";\nproc main() is { " + n + " := 6; if " + n + " = 6 then 0(" + n + " + 1) else 0(0) }\n");
        P("name:formal", "func w(val " + n + ") is return " + n + " + " + n + "\nproc main() is 0(w(21))\n");
        P("name:array", "array " + n + "[3];\nproc main() is { " + n + "[2] := 8; 0(" + n + "[2]) }\n");
      }
      // F8: output streams: 0..255 standard output, 256*n.. file simout<n mod 8>; values above 255 are truncated to a byte
      for (const char *st : {"0", "1", "255", "256", "257", "511", "512", "767", "1024", "1791", "1792", "2047", "2048", "2304", "65536", "70000"}) {
        P("streams", std::string("proc main() is { 1('a', ") + st + "); 1(353, " + st + "); 1('c', 0); 1('d', " + st + "); 0(3) }\n");
        P("streams", std::string("val s = ") + st + ";\nproc w(val c, val t) is 1(c, t)\nproc main() is var i; { i := 0; while i < 3 do { w('x' + i, s); i := i + 1 }; w('!', 0); 0(i) }\n");
      }
      // F13: lexical forms and the unbracketed forms the grammar allows: hexadecimal literals, every character escape, comments in every gap,
      // chains of one associative operator (+, and, or) of 3..5 operands in every expression position, system calls through val names
      {
        for (const char *h : {"#0", "#F", "#f", "#10", "#7F", "#80", "#FF", "#100", "#FFFF", "#10000", "#FFFFF", "#100000", "#7FFFFFFF", "#80000000", "#FFFFFFFF", "#ffffFFFF", "#0000000A", "#aB"}) {
          std::string H = h;
          P("lex:hex", "proc main() is 0(" + H + ")\n");
          P("lex:hex", "val k = " + H + ";\nproc main() is var x; { x := k; if x = " + H + " then 0(x + 1) else 0(7) }\n");
          P("lex:hex", "proc main() is var x; { x := 2(0); if x < " + H + " then 0(x - " + H + ") else 0(" + H + " - x) }\n");
        }
        for (const char *c : {"\\\\", "\\'", "\\\"", "\\t", "\\r", "\\n", "a", " ", "|", "#", "\"", "0", "~"}) {
          std::string C = c;
          if (C != "\"") P("lex:char", "proc main() is { 1('" + C + "', 0); 0('" + C + "' + 1) }\n");
          if (C != "\"") P("lex:char", "proc main() is var x; { x := 2(0); if x = '" + C + "' then 0(1) else 0(x) }\n");
          std::string S = C == "\"" ? "\\\"" : C;
          P("lex:string-char", "func at(array s, val k) is return s[k]\nproc main() is 0(at(\"" + S + "x" + S + "\", 0))\n");
        }
        for (const char *cm : {"|c\n", "| proc main() is 0(9)\n", "|\n", "||\n", "| \"unterminated\n", "|'\n"}) {
          std::string K = cm;
          P("lex:comment", K + "proc main() is 0(1)\n");
          P("lex:comment", "var g; " + K + "proc main() is " + K + "{ g := 2; " + K + "0(g " + K + "+ " + K + "3) " + K + "}\n");
          P("lex:comment", "proc main() is 0(1)\n" + K);
          P("lex:comment", "proc main() is 0(1) " + K.substr(0, K.size() - 1));    // comment ended by end of file
          P("lex:comment", "func f(val a, " + K + "val b) is return a - b\nproc main() is 0(f(9, " + K + "4))\n");
        }
        std::vector<std::string> ops = {"x", "y", "g", "3", "70000", "a[1]", "a[i]", "id(x)", "2(0)", "(x - y)", "(-y)", "(y + 1)", "(x < y)", "(~x)"};
        std::vector<std::string> bops = {"(x < y)", "(y < x)", "true", "false", "(x = 5)", "(~(x = y))", "(a[1] = 33)", "(id(x) = 6)", "(2(0) = 65)", "(g >= 17)", "(a[i] ~= 65)", "(~(y <= 9))", "((x < y) and (g < y))", "((x = 0) or (y = 9))"};
        for (const char *op : {"+", "and", "or"}) for (int n = 3; n <= 5; n++) {
          // operands cycle through the vocabulary from every starting point
          for (size_t st = 0; st < ops.size(); st++) {
            const std::vector<std::string> &V = std::string(op) == "+" ? ops : bops;
            std::string e; for (int k = 0; k < n; k++) e += (k ? std::string(" ") + op + " " : std::string("")) + V[(st + k * 3) % V.size()];
            std::string pre = "var g; array a[4];\nfunc id(val n) is return n\nfunc two(val u, val v) is return u - v\nproc main() is var x; var y; var i; { x := 5; y := 9; g := 17; i := 2; a[1] := 33; a[2] := 65; ";
            P(std::string("chain:") + op, pre + "0(" + e + ") }\n");
            P(std::string("chain:") + op, pre + "x := " + e + "; 0(x - 1) }\n");
            P(std::string("chain:") + op, pre + "if (" + e + ") = 0 then 0(1) else 0(2) }\n");
            P(std::string("chain:") + op, pre + "0(two(" + e + ", " + e + " " + op + " 1)) }\n");
            P(std::string("chain:") + op, pre + "a[3] := 129; 0(a[(" + e + ") and 3]) }\n");
            if (std::string(op) != "+") { P(std::string("chain:") + op, pre + "if " + e + " then 0(1) else 0(2) }\n"); P(std::string("chain:") + op, pre + "while " + e + " do { x := 0; y := 0; g := 0; a[1] := 0; a[2] := 0; i := 1 }; 0(x + i) }\n"); }
          }
        }
        // logical operators over operands that are not 0/1, used where only zero / non-zero matters: under ~, as a condition, as an operand of another and/or
        {
          std::vector<std::string> tv = {"x", "z", "g", "a[1]", "id(x)", "(x - 5)", "(x + y)", "id(z)", "(~x)", "(~z)"};
          std::vector<std::string> E;
          for (size_t i = 0; i < tv.size(); i++) for (size_t j = 0; j < tv.size(); j++) { if ((i * 7 + j) % 3 == 0) E.push_back(tv[i] + " and " + tv[j]); if ((i * 5 + j) % 3 == 1) E.push_back(tv[i] + " or " + tv[j]); }
          for (size_t i = 0; i < tv.size(); i++) { E.push_back(tv[i] + " and " + tv[(i + 3) % tv.size()] + " and " + tv[(i + 5) % tv.size()]); E.push_back("(" + tv[i] + " or " + tv[(i + 1) % tv.size()] + ") and " + tv[(i + 4) % tv.size()]);
            E.push_back(tv[i] + " or (" + tv[(i + 2) % tv.size()] + " and " + tv[(i + 7) % tv.size()] + ")"); E.push_back("(~(" + tv[i] + " and " + tv[(i + 6) % tv.size()] + ")) or " + tv[(i + 1) % tv.size()]); }
          std::string pre = "var g; array a[4];\nfunc id(val n) is return n\nproc main() is var x; var y; var z; { x := 5; y := 9; z := 0; g := 17; a[1] := 33; ";
          for (auto &e : E) {
            P("truth:not", pre + "0(~(" + e + ")) }\n");
            P("truth:notnot", pre + "0('0' + (~(~(" + e + ")))) }\n");
            P("truth:if", pre + "if " + e + " then 0(1) else 0(2) }\n");
            P("truth:while", pre + "while " + e + " do { x := 0; g := 0; a[1] := 0; y := 0 - 5 }; 0(x + y) }\n");
            P("truth:assign-not", pre + "y := (~(" + e + ")) + (~(~(" + e + "))); 0(y) }\n");
          }
        }
        P("sys:val-named", "val exit = 0; val put = 1; val get = 2;\nproc main() is var c; { c := get(0); put(c, 0); put('!', 0); exit(c + 1) }\n");
        P("sys:val-named", "val put = 1;\nproc out(val c) is put(c, 0)\nproc main() is { out('a'); out('b'); 0(0) }\n");
        P("sys:val-named", "val get = 2; val instream = 0;\nfunc rd() is return get(instream)\nproc main() is 0(rd() + rd())\n");
        P("sys:val-named", "val e = 1 - 1; val p = e + 1;\nproc main() is { p('z', e); e(5) }\n");
        P("sys:val-named", "val put = 1;\nproc main() is val put = 0; put(9)\n");
        P("sys:val-named", "val put = 1; val s = 256;\nproc main() is { put('f', s); put('g', s + 256); 0(0) }\n");
      }
      // F14: every sequence of <=4 local declarations over {val, var} (and of <=3 global declarations over {val, var, array}) in a procedure whose body needs temporaries and outgoing actuals:
      // every var is written first, then a two-actual call, a subscripted store with a computed value and an expression with a spilled operand run, then every var is read back
      {
        for (int n = 1; n <= 4; n++) for (int m = 0; m < (1 << n); m++) for (int shape = 0; shape < 3; shape++) {
          std::string decl, init, sum = "0"; int nv = 0, nl = 0;
          for (int k = 0; k < n; k++) {
            if (m & (1 << k)) { decl += "var v" + std::to_string(nv) + "; "; init += "v" + std::to_string(nv) + " := " + std::to_string(10 + 7 * nv) + " + p; "; sum = "(" + sum + " + v" + std::to_string(nv) + ")"; nv++; }
            else { decl += "val c" + std::to_string(nl) + " = " + std::to_string(shape == 2 ? 70000 + nl : 3 + nl) + "; "; sum = "(" + sum + " + c" + std::to_string(nl) + ")"; nl++; }
          }
          std::string use = shape == 0 ? "two(p, p + 1); a[p] := p + (p + 2); g := g + ((p + 1) + (a[p] + id(p))); "
                          : shape == 1 ? "a[id(p)] := id(p) + id(p + 1); two(a[p], id(p)); "
                                       : "g := two2(id(p) + 1, id(p + 1) + (p + p)); ";
          P("locals:order", "var g; array a[4];\nfunc id(val n) is return n\nproc two(val u, val w) is g := (g + u) + (w + w)\nfunc two2(val u, val w) is return (u + u) + w\n"
                            "proc t(val p) is " + decl + "\n{ " + init + use + "0((" + sum + " + g) + a[1]) }\nproc main() is { g := 0; a[1] := 0; t(1) }\n");
          if (shape == 0) P("locals:order:func", "var g;\nfunc id(val n) is return n\nfunc t(val p) is " + decl + "\n{ " + init + "g := id(p) + id(p + 1); return " + sum + " + g }\nproc main() is 0(t(2) + t(3))\n");
        }
        const char *G[3] = {"val", "var", "array"};
        for (int n = 1; n <= 3; n++) { int tot = 1; for (int k = 0; k < n; k++) tot *= 3;
          for (int m = 0; m < tot; m++) {
            std::string decl, init, sum = "0"; int r = m;
            for (int k = 0; k < n; k++) { int kind = r % 3; r /= 3; std::string nm = "q" + std::to_string(k);
              if (kind == 0) { decl += "val " + nm + " = " + std::to_string(5 + k) + ";\n"; sum = "(" + sum + " + " + nm + ")"; }
              else if (kind == 1) { decl += "var " + nm + ";\n"; init += nm + " := " + std::to_string(20 + k) + "; "; sum = "(" + sum + " + " + nm + ")"; }
              else { decl += "array " + nm + "[" + std::to_string(2 + k) + "];\n"; init += nm + "[0] := " + std::to_string(30 + k) + "; " + nm + "[" + std::to_string(1 + k) + "] := " + std::to_string(40 + k) + "; "; sum = "(" + sum + " + (" + nm + "[0] + " + nm + "[" + std::to_string(1 + k) + "]))"; } }
            P("globals:order", decl + "proc main() is { " + init + "0(" + sum + ") }\n");
          } }
      }
      // F15: the first statement of a body (directly after the prologue) and the statement directly after a loop / a conditional (directly after a label):
      // every statement kind x every kind of leading operand (formal, local, global, element, call, constant) x frame shapes (no frame, formals only, locals, both)
      {
        std::vector<std::pair<std::string, std::string>> frames = {{"", ""}, {"val p", ""}, {"", "var l;"}, {"val p", "var l;"}, {"val p, val q", "var l; var m;"}};
        for (size_t fi = 0; fi < frames.size(); fi++) {
          bool hasP = frames[fi].first.find("val p") != std::string::npos, hasL = frames[fi].second.find("var l;") != std::string::npos;
          std::vector<std::string> lead = {"g", "a[1]", "id(g)", "3"}; if (hasP) lead.push_back("p"); if (hasL) lead.push_back("l");
          std::string actuals = frames[fi].first.empty() ? "" : frames[fi].first.find("val q") != std::string::npos ? "3, 4" : "3";
          for (auto &x : lead) {
            std::string v = x == "3" ? "g" : x;   // a counter that can be assigned
            bool assignable = x != "id(g)" && x != "3";
            std::vector<std::string> firsts;
            if (assignable && x != "l") firsts.push_back("while " + x + " < 6 do " + x + " := " + x + " + 1");
            if (assignable && x != "l") firsts.push_back("while ~(" + x + " = 6) do { h := h + " + x + "; " + x + " := " + x + " + 1 }");
            firsts.push_back("if " + x + " < 4 then h := 1 else h := 2");
            firsts.push_back("if " + x + " = 3 then skip else h := 5");
            firsts.push_back("h := " + x + " + " + x);
            firsts.push_back("out(" + x + ")");
            firsts.push_back("{ h := " + x + "; h := h + 1 }");
            firsts.push_back("a[2] := " + x);
            for (auto &st : firsts) {
              std::string pre = hasL ? "" : "";
              // locals cannot be read before they are written: a body that starts with a statement reading l is only generated behind an assignment in a second variant
              std::string body1 = st + "; 1('0' + h, 0); 1('0' + g, 0); 0((g + h) + a[1])";
              if (st.find(" l") == std::string::npos && st.find("(l") == std::string::npos && st.find("l ") != 0)
                P("first-statement", "var g; var h; array a[4];\nfunc id(val n) is return n\nproc out(val c) is 1('a' + c, 0)\nproc t(" + frames[fi].first + ") is " + frames[fi].second + "\n{ " + body1 + " }\nproc main() is { g := 3; h := 0; a[1] := 3; a[2] := 0; t(" + actuals + ") }\n");
              // the same statement directly after a loop and directly after a conditional
              std::string setl = hasL ? "l := 3; " : "";
              P("after-label", "var g; var h; array a[4];\nfunc id(val n) is return n\nproc out(val c) is 1('a' + c, 0)\nproc t(" + frames[fi].first + ") is " + frames[fi].second + "\n{ " + setl + "while h < 2 do h := h + 1; " + st + "; if h = 9 then skip else h := h + 1; " + st + "; 1('0' + h, 0); 0((g + h) + a[1]) }\nproc main() is { g := 3; h := 0; a[1] := 3; a[2] := 0; t(" + actuals + ") }\n");
            }
          }
        }
        // a loop as the first statement whose condition starts with a formal or local, looping several times, in procedures and functions
        for (const char *cond : {"n < g", "n ~= g", "(n + 1) <= g", "~(n = g)", "g > n", "(n < g) and (n < 9)", "id(n) < g"}) for (int useLocal = 0; useLocal < 2; useLocal++) {
          std::string c = cond;
          P("loop-first", "var g; var h;\nfunc id(val n) is return n\nproc show(val n) is " + std::string(useLocal ? "var k;" : "") + "\n{ while " + c + " do { 1('0' + g, 0); g := g - 1 }; " + (useLocal ? "k := g; 1('0' + k, 0)" : "1('!', 0)") + " }\nproc main() is { g := 5; show(2); 0(g) }\n");
          P("loop-first", "var g;\nfunc id(val n) is return n\nfunc cnt(val n) is var k;\n{ while " + c + " do g := g - 1; k := g + n; return k }\nproc main() is { g := 6; 0(cnt(2) + cnt(1)) }\n");
        }
      }
      // F16: conditions the compiler can evaluate itself: every constant form (literal, boolean, val, folded expression, rewritten relation) as the condition of if / while,
      // alone and combined with a run-time operand through and / or, in main and in a procedure with a frame
      {
        std::vector<std::pair<std::string, bool>> K = {{"false", false}, {"true", true}, {"0", false}, {"1", true}, {"5", true}, {"off", false}, {"on", true}, {"big", true}, {"(2 < 1)", false}, {"(1 < 2)", true},
                                                       {"(1 = 2)", false}, {"(2 = 2)", true}, {"(1 ~= 1)", false}, {"(1 ~= 2)", true}, {"(1 > 2)", false}, {"(2 >= 2)", true}, {"(2 <= 1)", false}, {"(~true)", false}, {"(~off)", true},
                                                       {"(off and on)", false}, {"(off or on)", true}, {"(on - 1)", false}, {"(on + on)", true}, {"(-on)", true}, {"(big - 70000)", false}};
        std::string decl = "val off = false; val on = true; val big = 70000;\nvar g;\nfunc id(val n) is return n\n";
        for (auto &k : K) {
          const std::string &c = k.first;
          P("const-cond:while", decl + "proc main() is { g := 3; while " + c + " do { 1('b', 0); g := g + 1; if g > 5 then 0(g) else skip }; 1('e', 0); 0(g) }\n");
          P("const-cond:if", decl + "proc main() is { g := 3; if " + c + " then 1('t', 0) else 1('f', 0); if " + c + " then skip else g := g + 1; if " + c + " then g := g + 2 else skip; 0(g) }\n");
          P("const-cond:proc", decl + "proc t(val p) is var l;\n{ l := p; while " + c + " do { l := l + 1; if l > 6 then { 1('x', 0); 0(l) } else skip }; if " + c + " then 0(l + 10) else 0(l + 20) }\nproc main() is { g := 1; t(4) }\n");
          P("const-cond:func", decl + "func f(val p) is { while " + c + " do return p + 1; if " + c + " then return p + 2 else return p + 3 }\nproc main() is 0(f(4) + f(10))\n");
          for (const char *rt : {"(g = 3)", "(g = 4)", "(id(g) = 3)"}) for (const char *op : {"and", "or"}) {
            P("const-cond:mixed", decl + "proc main() is { g := 3; if " + c + " " + op + " " + rt + " then 1('t', 0) else 1('f', 0); if " + rt + " " + op + " " + c + " then 0(1) else 0(2) }\n");
            P("const-cond:mixed-while", decl + "proc main() is { g := 3; while " + c + " " + op + " " + rt + " do { g := g + 1; if g > 6 then 0(g) else skip }; while " + rt + " " + op + " " + c + " do { g := g + 1; if g > 8 then 0(g + 100) else skip }; 0(g) }\n");
          }
          P("const-cond:value", decl + "proc main() is { g := " + c + "; 0((g + g) + (~" + c + ")) }\n");
        }
      }
      // F12: every ordered pair (thorough: triple) of simple statements over a vocabulary of assignments and calls whose sources and targets include each
      // constant subscript 0..3 of a global and of a formal array: adjacent-statement interactions (peephole removal of reloads, register reuse)
      {
        std::vector<std::string> tg = {"x", "y", "g", "a[0]", "a[3]", "a[i]", "fa[1]"};
        std::vector<std::string> srcv = {"7", "x", "g", "a[0]", "a[1]", "a[2]", "a[3]", "fa[0]", "fa[2]", "id(x)", "x + 1", "a[1] + a[2]"};
        auto voc = std::make_shared<std::vector<std::string>>();
        for (auto &t : tg) for (auto &v : srcv) voc->push_back(t + " := " + v);
        for (const char *c : {"pr2(x, a[1])", "pr2(a[2], x)", "pr2(g, a[2])", "pr3(x, g, a[3])", "y := f2(x, a[2])", "y := f2(a[3], a[3])", "y := f3(1, 2, a[3])", "y := f3(x, a[3], a[2])", "1(a[2], 0)", "1(x, a[0])", "y := lf()", "y := lf() + a[0]"}) voc->push_back(c);
        for (const char *c : {"if x = 5 then y := 1 else skip", "if x = 6 then skip else y := 2", "if a[1] = 11 then a[2] := 1 else a[3] := 2", "while y < 2 do y := y + 1", "if g < x then skip else skip",
                              "if (x = 5) and (a[2] = 12) then g := a[2] else g := a[3]", "while a[0] > 8 do a[0] := a[0] - 1", "if id(x) = 5 then x := a[1] else x := a[2]"}) voc->push_back(c);
        auto mk = [voc](const std::vector<size_t> &ix) {
          std::string body; for (auto k : ix) body += (*voc)[k] + "; ";
          return std::string("var g; var h; array a[4];\nfunc id(val n) is return n\nfunc f2(val u, val v) is return (u + u) + ((v + v) + v)\nfunc f3(val u, val v, val w) is return (u + (v + v)) + ((w + w) + (w + w))\n"
                             "func lf() is return a[0]\nproc pr2(val u, val v) is h := (h + u) + (v + v)\nproc pr3(val u, val v, val w) is h := ((h + u) + (v + v)) + ((w + w) + (w + w))\n"
                             "proc t(val p, array fa) is var x; var i; var y;\n{ x := 5; i := 2; y := 0; g := 9; h := 0; a[0] := 0; a[1] := 0; a[2] := 0; a[3] := 0; a[0] := 10; a[1] := 11; a[2] := 12; a[3] := 13;\n  ") + body +
                 "1(x, 0); 1(y, 0); 1(g, 0); 1(h, 0); 1(a[0], 0); 1(a[1], 0); 1(a[2], 0); 1(a[3], 0); 0(((x + y) + (g + h)) + ((a[0] + a[1]) + (a[2] + a[3]))) }\nproc main() is t(20, a)\n";
        };
        size_t nv = voc->size();
        add({"F12:stmt-pairs", (uint64_t)nv * nv, [mk, nv](uint64_t i, std::string *shape) { if (shape) *shape = "pair"; return mk({(size_t)(i / nv), (size_t)(i % nv)}); }});
        if (thorough) add({"F12:stmt-triples", (uint64_t)nv * nv * nv, [mk, nv](uint64_t i, std::string *shape) { if (shape) *shape = "triple"; return mk({(size_t)(i / (nv * nv)), (size_t)((i / nv) % nv), (size_t)(i % nv)}); }});
      }
      // F9: large frames (stack offsets that need prefixes) and many formals; every local and formal is written and read back
      for (int nl : {1, 14, 15, 16, 17, 40, 260}) for (int nf : {0, 1, 9, 10, 17}) {
        std::string s = "func big(";
        for (int i = 0; i < nf; i++) s += std::string(i ? ", " : "") + "val f" + std::to_string(i);
        s += ") is ";
        for (int i = 0; i < nl; i++) s += "var v" + std::to_string(i) + "; ";
        s += "\n{ ";
        for (int i = 0; i < nl; i++) s += "v" + std::to_string(i) + " := " + std::to_string(i * 3 + 1) + (nf ? " + f" + std::to_string(i % nf) : "") + "; ";
        s += "return (v0 + v" + std::to_string(nl - 1) + ") + (v" + std::to_string(nl / 2) + " + id(v" + std::to_string((nl * 2) / 3) + ")) }\nfunc id(val n) is return n\nproc main() is 0(big(";
        for (int i = 0; i < nf; i++) s += std::string(i ? ", " : "") + std::to_string(100 + i);
        s += "))\n";
        P("frame:locals" + std::to_string(nl), s);
      }
      // F10: long bodies: branch distances over if/while bodies that cross the 16/256/4096-byte encoding boundaries
      for (int n : {1, 2, 3, 4, 5, 20, 40, 41, 42, 43, 44, 300, 680, 690, 700}) for (int shape = 0; shape < 3; shape++) {
        std::string blk; for (int i = 0; i < n; i++) blk += "g := g + " + std::to_string(i % 7 + 1) + "; ";
        std::string s = "var g; var h;\nproc main() is var x; { g := 0; h := 0; x := 0; ";
        if (shape == 0) s += "if x = 0 then { " + blk + "h := 1 } else { h := 2 }; ";
        else if (shape == 1) s += "if x = 1 then { h := 2 } else { " + blk + "h := 1 }; ";
        else s += "while x < 2 do { " + blk + "x := x + 1 }; ";
        s += "if g < 0 then 0(0 - 1) else 0(g + h) }\n";
        P("long-body:" + std::to_string(n), s);
      }
      add({"F4-F7:hand", (uint64_t)progs->size(), [progs](uint64_t i, std::string *shape) { if (shape) *shape = (*progs)[i].first; return (*progs)[i].second; }});
    }
  }
};

}  // namespace xgen
