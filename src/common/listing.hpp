// Independent parser for hexasm/xcmp listings ("<offset> <directive text> (<n> bytes)") and for .S sources; C17's oracle.
#pragma once
#include <cstdint>
#include <sstream>
#include <string>
#include <vector>
#include "adapters/tools.hpp"
#include "common/refisa.hpp"

namespace listing {

inline int mnemOpc(const std::string &m) { for (int i = 0; i < 12; i++) if (m == refisa::MNEM[i]) return i; return -1; }
inline int oprCode(const std::string &m) { static const char *O[4] = {"BRB", "ADD", "SUB", "SVC"}; for (int i = 0; i < 4; i++) if (m == O[i]) return i; return -1; }

// ---- .S source -> items (only used for the shipped files; written from the grammar in hexasm.hpp's header comment)
inline bool parseAsmSource(const std::string &src, std::vector<ad::Item> &items, std::string &err) {
  std::vector<std::string> toks;
  std::string cur; bool comment = false;
  for (char c : src) {
    if (comment) { if (c == '\n') comment = false; continue; }
    if (c == '#') { comment = true; if (!cur.empty()) { toks.push_back(cur); cur.clear(); } continue; }
    if (isspace((unsigned char)c)) { if (!cur.empty()) { toks.push_back(cur); cur.clear(); } continue; }
    if (c == '-' && cur.empty()) { cur = "-"; continue; }
    cur += c;
  }
  if (!cur.empty()) toks.push_back(cur);
  auto isNum = [](const std::string &t) { size_t i = t[0] == '-' ? 1 : 0; if (i >= t.size()) return false; for (; i < t.size(); i++) if (!isdigit((unsigned char)t[i])) return false; return true; };
  for (size_t i = 0; i < toks.size(); i++) {
    const std::string &t = toks[i];
    int opc = mnemOpc(t);
    if (opc >= 0) {
      if (++i >= toks.size()) { err = "operand missing"; return false; }
      std::string o = toks[i];
      if (o == "-" && i + 1 < toks.size()) o += toks[++i];
      if (isNum(o)) items.push_back({1, opc, (int32_t)(uint32_t)(o[0] == '-' ? 0u - (uint32_t)strtoul(o.c_str() + 1, nullptr, 10) : (uint32_t)strtoul(o.c_str(), nullptr, 10)), "", false});
      else items.push_back({2, opc, 0, o, opc >= 5});
    } else if (t == "OPR") {
      if (++i >= toks.size() || oprCode(toks[i]) < 0) { err = "bad OPR"; return false; }
      items.push_back({4, oprCode(toks[i]), 0, "", false});
    } else if (t == "DATA") {
      if (++i >= toks.size()) { err = "DATA value missing"; return false; }
      std::string o = toks[i]; if (o == "-" && i + 1 < toks.size()) o += toks[++i];
      if (!isNum(o)) { err = "DATA value"; return false; }
      items.push_back({3, 0, (int32_t)(uint32_t)(o[0] == '-' ? 0u - (uint32_t)strtoul(o.c_str() + 1, nullptr, 10) : (uint32_t)strtoul(o.c_str(), nullptr, 10)), "", false});
    } else if (t == "PROC" || t == "FUNC") {
      if (++i >= toks.size()) { err = "name missing"; return false; }
      items.push_back({t == "PROC" ? 5 : 6, 0, 0, toks[i], false});
    } else if (isalpha((unsigned char)t[0])) items.push_back({0, 0, 0, t, false});
    else { err = "unexpected token " + t; return false; }
  }
  return true;
}

// ---- listing lines
struct Line { uint32_t offset = 0; uint32_t size = 0; std::string text; };
inline bool parseListing(const std::string &lst, std::vector<Line> &out, long &totalLine, std::string &err) {
  std::istringstream ss(lst); std::string ln; totalLine = -1;
  while (std::getline(ss, ln)) {
    if (ln.empty()) continue;
    size_t sp = ln.find(' ');
    if (sp == std::string::npos) { err = "unparsable line: " + ln; return false; }
    std::string first = ln.substr(0, sp), rest = ln.substr(sp + 1);
    if (rest == "bytes") { totalLine = atol(first.c_str()); continue; }
    size_t rp = ln.rfind(" bytes)"), lp = ln.rfind('(');
    if (rp == std::string::npos || lp == std::string::npos || lp > rp) { err = "no '(n bytes)' suffix: " + ln; return false; }
    Line L; L.offset = (uint32_t)strtoul(first.c_str(), nullptr, 16); L.size = (uint32_t)atol(ln.substr(lp + 1).c_str());
    std::string t = ln.substr(sp + 1, lp - sp - 1);
    while (!t.empty() && t.back() == ' ') t.pop_back();
    L.text = t; out.push_back(L);
  }
  return true;
}
inline std::string classOf(const std::string &what) {
  if (what.find("offset") != std::string::npos && what.find("overlap") != std::string::npos) return "overlap";
  if (what.find("not the listed") != std::string::npos) return "wrong-instruction-at-offset";
  if (what.find("operand") != std::string::npos) return "operand";
  if (what.find("occupies") != std::string::npos) return "size";
  if (what.find("DATA") != std::string::npos) return "data";
  if (what.find("uncovered") != std::string::npos) return "uncovered-nonzero";
  return "other";
}
// Returns "" when the listing describes the image; else what disagrees.
inline std::string checkAgainstImage(const std::string &lst, const std::string &image) {
  std::vector<Line> lines; long total; std::string err;
  if (!parseListing(lst, lines, total, err)) return err;
  std::vector<char> covered(image.size(), 0);
  uint32_t prevEnd = 0;
  for (size_t i = 0; i < lines.size(); i++) {
    const Line &L = lines[i];
    std::istringstream ts(L.text); std::string a, b, c; ts >> a >> b >> c;
    if (a == "PADDING") continue;                         // order only; the trailing padding line carries no offset
    bool isLabel = b.empty() || a == "PROC" || a == "FUNC";
    if (isLabel) { if (L.offset < prevEnd) return "line " + std::to_string(i) + " '" + L.text + "': label offset " + std::to_string(L.offset) + " lies before the end of the previous item (overlap)"; continue; }
    if (L.offset < prevEnd) return "line " + std::to_string(i) + " '" + L.text + "': offset " + std::to_string(L.offset) + " < end of previous item " + std::to_string(prevEnd) + " (overlap)";
    if (a == "DATA") {
      if (L.offset & 3) return "line " + std::to_string(i) + ": DATA listed at unaligned offset";
      if (L.offset + 4 > image.size()) return "line " + std::to_string(i) + ": DATA beyond image";
      uint32_t v = (uint8_t)image[L.offset] | ((uint8_t)image[L.offset + 1] << 8) | ((uint8_t)image[L.offset + 2] << 16) | ((uint32_t)(uint8_t)image[L.offset + 3] << 24);
      if (v != (uint32_t)strtol(b.c_str(), nullptr, 10) && v != (uint32_t)strtoul(b.c_str(), nullptr, 10)) return "line " + std::to_string(i) + ": DATA " + b + " but image holds " + std::to_string(v);
      if (L.size != 4) return "line " + std::to_string(i) + ": DATA occupies 4 bytes, listed " + std::to_string(L.size);
      for (int k = 0; k < 4; k++) covered[L.offset + k] = 1;
      prevEnd = L.offset + 4; continue;
    }
    int want, wantOperandKnown = 1; uint32_t wantOperand = 0;
    if (a == "OPR") { want = 0xD; int oc = oprCode(b); if (oc < 0) return "line " + std::to_string(i) + ": unknown OPR " + b; wantOperand = oc; }
    else {
      want = mnemOpc(a); if (want < 0) return "line " + std::to_string(i) + ": unknown directive '" + L.text + "'";
      if (!c.empty() && c[0] == '(') wantOperand = (uint32_t)strtol(c.c_str() + 1, nullptr, 10);        // label operand: listed (value)
      else if (!b.empty() && (isdigit((unsigned char)b[0]) || b[0] == '-')) wantOperand = (uint32_t)strtol(b.c_str(), nullptr, 10);
      else wantOperandKnown = 0;                                                                      // unassembled label operand
    }
    uint32_t p = L.offset, o = 0; int op = -1;
    while (true) {
      if (p >= image.size()) return "line " + std::to_string(i) + " '" + L.text + "': image ends inside the instruction";
      uint8_t by = image[p++]; o |= by & 15; int k = by >> 4;
      if (k == 0xE) { o <<= 4; continue; }
      if (k == 0xF) { o = 0xFFFFFF00u | (o << 4); continue; }
      op = k; break;
    }
    if (op != want) return "line " + std::to_string(i) + " '" + L.text + "': the instruction found at offset " + std::to_string(L.offset) + " is " + refisa::MNEM[op] + ", not the listed one";
    if (wantOperandKnown && o != wantOperand) return "line " + std::to_string(i) + " '" + L.text + "': encoded operand " + std::to_string((int32_t)o) + " differs from the listed " + std::to_string((int32_t)wantOperand);
    if (p - L.offset != L.size) return "line " + std::to_string(i) + " '" + L.text + "': occupies " + std::to_string(p - L.offset) + " bytes, listed " + std::to_string(L.size);
    for (uint32_t k = L.offset; k < p; k++) covered[k] = 1;
    prevEnd = p;
  }
  for (size_t k = 0; k < image.size(); k++) if (!covered[k] && image[k] != 0) return "uncovered non-zero byte at offset " + std::to_string(k);
  return "";
}

}  // namespace listing
