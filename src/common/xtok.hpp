// Token-level view of X sources (via the reference lexer) and the semantic seed program shared by C09 and C11.
#pragma once
#include <set>
#include <string>
#include <vector>
#include "common/refx.hpp"

// tokens of an X source with their text (via the reference lexer's positions)
inline std::vector<std::string> tokenizeX(const std::string &src) {
  std::vector<std::string> t; refx::Lexer lx(src);
  while (true) {
    // skip whitespace/comments to find the token start
    while (lx.p < src.size()) { if (isspace((unsigned char)src[lx.p])) { lx.p++; continue; } if (src[lx.p] == '|') { while (lx.p < src.size() && src[lx.p] != '\n') lx.p++; continue; } break; }
    size_t b = lx.p; auto tk = lx.next();
    if (tk.t == refx::T_EOF) break;
    if (tk.t == refx::T_ERR) { t.push_back(src.substr(b, std::max<size_t>(1, lx.p - b))); if (lx.p <= b) lx.p = b + 1; continue; }
    t.push_back(src.substr(b, lx.p - b));
  }
  return t;
}

inline const char *semanticSeed() {
  return "val k = 2; val put = 1; var g; array a[k + 1];\nfunc f(val n, array q) is var t; { t := n + q[0]; return t }\nproc p(val v) is var w; { w := v; g := w }\n"
         "proc main() is var x; val l = k + 1; { x := f(l, a); p(x); a[1] := 3; if x < 2 then put('y', 0) else skip; while x > 0 do x := x - 1; 0(g + a[1]) }\n";
}
// replacement lexemes for single-token edits: every source token, every identifier of the program, hostile literals
inline std::vector<std::string> editReplacements(const std::vector<std::string> &toks, const std::vector<std::string> &sourceTokens) {
  std::vector<std::string> repl = sourceTokens; std::set<std::string> ids;
  for (auto &t : toks) if (isalpha((unsigned char)t[0])) ids.insert(t);
  for (auto &i : ids) repl.push_back(i);
  for (const char *h : {"undeclared", "4294967295", "99999999999999999999", "#", "#80000000", "3", "''", "'\\q'", "\"", "-1"}) repl.push_back(h);
  return repl;
}
