// Runs one binary on the repository's testbench (hextb.cpp's own load()/run(), linked in-process) in a forked child and reports what it did.
#pragma once
#include <sstream>
#include <iostream>
#include <sys/stat.h>
#include <sys/wait.h>
#include <unistd.h>
#include "adapters/tb.hpp"
#include "common/mc.hpp"

namespace tbrun {
struct TbResult { int sig; int kind; int status; uint32_t consumed, outLen; char out[4000]; char err[120]; uint32_t fileLen[8]; char files[8][64]; };

// workDir: directory the testbench runs in (its simout<n> files are created there and returned in the result); "" = current directory
inline TbResult run(const std::string &binPath, const std::string &input, int randMode, unsigned seed, size_t maxCycles, double timeout = 120, const std::string &workDir = "") {
  int fd[2]; if (pipe(fd)) mc::harness_fail("pipe");
  fflush(stdout); fflush(stderr);
  pid_t pid = fork();
  if (pid == 0) {
    close(fd[0]);
    mc::child_limits((size_t)3 << 30);
    if (!workDir.empty()) { mkdir(workDir.c_str(), 0755); if (chdir(workDir.c_str())) _exit(6); }
    std::istringstream in(input); std::ostringstream out, err;
    std::cin.rdbuf(in.rdbuf()); std::cout.rdbuf(out.rdbuf()); std::cerr.rdbuf(err.rdbuf());
    static TbResult r; memset(&r, 0, sizeof r);
    tb::Model m = tb::create(randMode, seed);
    tb::load(m, binPath.c_str());
    std::string e;
    r.status = tb::run(m, false, maxCycles, &r.kind, &e);
    std::string o = out.str();
    size_t nl = o.find('\n'); std::string after = nl == std::string::npos ? o : o.substr(nl + 1);
    r.outLen = after.size(); memcpy(r.out, after.data(), std::min(after.size(), sizeof r.out));
    strncpy(r.err, e.c_str(), sizeof r.err - 1);
    r.consumed = input.size() - (size_t)in.rdbuf()->in_avail();
    tb::close_streams();
    for (int n = 0; n < 8; n++) { std::string f = mc::slurp("simout" + std::to_string(n)); r.fileLen[n] = f.size(); memcpy(r.files[n], f.data(), std::min(f.size(), sizeof r.files[n])); unlink(("simout" + std::to_string(n)).c_str()); }
    if (write(fd[1], &r, sizeof r) != (ssize_t)sizeof r) _exit(5);
    _exit(0);
  }
  close(fd[1]);
  static thread_local TbResult r; memset(&r, 0, sizeof r);
  double t0 = mc::now(); int status = 0; bool done = false;
  // read first (the result is larger than a pipe buffer may hold while the child waits to exit)
  size_t got = 0;
  while (got < sizeof r) { ssize_t n = read(fd[0], (char *)&r + got, sizeof r - got); if (n <= 0) break; got += n; if (mc::now() - t0 > timeout) break; }
  close(fd[0]);
  while (mc::now() - t0 < timeout) { pid_t w = waitpid(pid, &status, WNOHANG); if (w == pid) { done = true; break; } usleep(200); }
  if (!done) { kill(pid, SIGKILL); waitpid(pid, &status, 0); memset(&r, 0, sizeof r); r.sig = -1; return r; }
  if (WIFSIGNALED(status)) { memset(&r, 0, sizeof r); r.sig = WTERMSIG(status); }
  else if (got != sizeof r) { memset(&r, 0, sizeof r); r.sig = 1000 + (WIFEXITED(status) ? WEXITSTATUS(status) : 0); }
  return r;
}
}  // namespace tbrun
