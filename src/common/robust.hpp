// Input-space enumerators for the "accepts or cleanly rejects every input" properties (C09, C10) and the fill-pattern seam.
#pragma once
#include <cstdint>
#include <cstdlib>
#include <cstring>
#include <new>
#include <string>
#include <vector>

namespace robust {

// ---- heap fill seam: every operator-new block is filled with g_fill before use (uninitialised reads become fill-dependent)
extern unsigned char g_fill;
extern bool g_fill_on;
extern size_t g_shift;
extern bool g_desc; void desc_begin(); void desc_end();
inline void dirtyStack(unsigned char v) {
  volatile unsigned char buf[192 * 1024];
  for (size_t i = 0; i < sizeof buf; i += 1) buf[i] = v;
}

// ---- all strings over an alphabet up to a length, shortest first
struct Strings {
  std::vector<std::string> alpha; int maxLen; std::string sep;
  std::vector<uint64_t> start;  // start[l] = index of first string of length l
  uint64_t total = 0;
  Strings(std::vector<std::string> a, int maxLen, std::string sep = "") : alpha(std::move(a)), maxLen(maxLen), sep(std::move(sep)) {
    uint64_t n = 1;
    for (int l = 0; l <= maxLen; l++) { start.push_back(total); total += n; n *= alpha.size(); }
  }
  std::string make(uint64_t idx) const {
    int l = 0; while (l < maxLen && idx >= start[l + 1]) l++;
    uint64_t r = idx - start[l];
    std::vector<const std::string *> parts(l);
    for (int i = l - 1; i >= 0; i--) { parts[i] = &alpha[r % alpha.size()]; r /= alpha.size(); }
    std::string s;
    for (int i = 0; i < l; i++) { if (i && !sep.empty()) s += sep; s += *parts[i]; }
    return s;
  }
};

// ---- single-token edits of a token sequence: delete, duplicate, swap-with-next, replace-by-each-lexeme
struct Edits {
  std::vector<std::string> toks; std::vector<std::string> repl; std::string sep;
  bool deletionsOnly = false;
  Edits(std::vector<std::string> t, std::vector<std::string> r, std::string sep = " ", bool delOnly = false) : toks(std::move(t)), repl(std::move(r)), sep(std::move(sep)), deletionsOnly(delOnly) {}
  uint64_t perPos() const { return deletionsOnly ? 1 : 3 + repl.size(); }
  uint64_t total() const { return toks.size() * perPos(); }
  std::string make(uint64_t idx, std::string *desc = nullptr) const {
    size_t p = idx / perPos(); uint64_t k = idx % perPos();
    std::vector<std::string> t = toks;
    std::string d;
    if (k == 0) { d = "delete token " + std::to_string(p) + " '" + t[p] + "'"; t.erase(t.begin() + p); }
    else if (k == 1) { d = "duplicate token " + std::to_string(p) + " '" + t[p] + "'"; t.insert(t.begin() + p, t[p]); }
    else if (k == 2) { d = "swap tokens " + std::to_string(p) + "," + std::to_string(p + 1); if (p + 1 < t.size()) std::swap(t[p], t[p + 1]); }
    else { d = "replace token " + std::to_string(p) + " '" + t[p] + "' by '" + repl[k - 3] + "'"; t[p] = repl[k - 3]; }
    if (desc) *desc = d;
    std::string s;
    for (size_t i = 0; i < t.size(); i++) { if (i) s += (i % 8 == 0) ? "\n" : sep; s += t[i]; }
    return s;
  }
};

}  // namespace robust

#ifdef ROBUST_DEFINE_NEW
#include <sys/mman.h>
namespace robust {
unsigned char g_fill = 0; bool g_fill_on = false; size_t g_shift = 0;
// descending arena: while g_desc is set every block is carved from the top of a private region downwards, so that of two blocks allocated one after the
// other the later one has the LOWER address (malloc gives the opposite order): whatever orders or hashes objects by address comes out the other way round
bool g_desc = false;
static char *g_arena = nullptr, *g_arenaTop = nullptr; static const size_t ARENA = (size_t)3 << 30; static long g_arenaLive = 0;
static const std::size_t ARENA_MARK = ~(std::size_t)0;
void desc_begin() {
  if (!g_arena) { void *m = mmap(nullptr, ARENA, PROT_READ | PROT_WRITE, MAP_PRIVATE | MAP_ANONYMOUS | MAP_NORESERVE, -1, 0); if (m == MAP_FAILED) return; g_arena = (char *)m; g_arenaTop = g_arena + ARENA; }
  if (g_arenaLive == 0) g_arenaTop = g_arena + ARENA;   // nothing from an earlier run is still alive: start from the top again
  g_desc = true;
}
void desc_end() { g_desc = false; }
}
// Every block: [raw ... shift bytes ...][16-byte header holding the shift][user data].  Shifting changes every pointer value and the
// relative order/spacing of blocks; filling makes reads of uninitialised heap memory pattern-dependent.
void *operator new(std::size_t n) {
  if (robust::g_desc && robust::g_arena) {
    std::size_t need = ((n + 15) & ~(std::size_t)15) + 16;
    if ((std::size_t)(robust::g_arenaTop - robust::g_arena) > need + 4096) {
      robust::g_arenaTop -= need; char *user = robust::g_arenaTop + 16;
      *reinterpret_cast<std::size_t *>(user - 16) = robust::ARENA_MARK; robust::g_arenaLive++;
      if (robust::g_fill_on) std::memset(user, robust::g_fill, n);
      return user;
    }
  }
  std::size_t shift = robust::g_fill_on ? robust::g_shift : 0;
  char *raw = static_cast<char *>(std::malloc(n + shift + 16));
  if (!raw) throw std::bad_alloc();
  char *user = raw + shift + 16;
  *reinterpret_cast<std::size_t *>(user - 16) = shift;
  if (robust::g_fill_on) std::memset(user, robust::g_fill, n);
  return user;
}
void *operator new[](std::size_t n) { return operator new(n); }
// the nothrow forms (used by std::stable_sort's temporary buffer, among others) must come from the same seam, since their blocks are released with the plain operator delete
void *operator new(std::size_t n, const std::nothrow_t &) noexcept { try { return operator new(n); } catch (...) { return nullptr; } }
void *operator new[](std::size_t n, const std::nothrow_t &) noexcept { try { return operator new(n); } catch (...) { return nullptr; } }
void operator delete(void *p) noexcept {
  if (!p) return;
  char *user = static_cast<char *>(p);
  std::size_t shift = *reinterpret_cast<std::size_t *>(user - 16);
  if (shift == robust::ARENA_MARK) { robust::g_arenaLive--; return; }   // arena blocks are never reused individually
  std::free(user - 16 - shift);
}
void operator delete[](void *p) noexcept { operator delete(p); }
void operator delete(void *p, std::size_t) noexcept { operator delete(p); }
void operator delete[](void *p, std::size_t) noexcept { operator delete(p); }
void operator delete(void *p, const std::nothrow_t &) noexcept { operator delete(p); }
void operator delete[](void *p, const std::nothrow_t &) noexcept { operator delete(p); }
#endif
