// Harness around the hexsim adapter: owned I/O buffers, single-stepping (calibrated), planting.
#pragma once
#include <cstring>
#include <istream>
#include <ostream>
#include <streambuf>
#include <string>
#include "adapters/tools.hpp"
#include "common/mc.hpp"
#include "common/refisa.hpp"

namespace simh {

struct InBuf : std::streambuf {
  std::string data;
  void reset(const std::string &d) { data = d; char *p = data.empty() ? nullptr : &data[0]; setg(p, p, p + data.size()); }
  size_t consumed() const { return gptr() - eback(); }
};
struct OutBuf : std::streambuf {
  std::string data;
  int_type overflow(int_type c) override { if (c != traits_type::eof()) data += (char)c; return c; }
  std::streamsize xsputn(const char *s, std::streamsize n) override { data.append(s, n); return n; }
};

struct Sim {
  InBuf ib; OutBuf ob;
  std::istream in; std::ostream out;
  ad::SimView v;
  bool placed = false;
  void *buf = nullptr;
  size_t stepCycles = 1, stepMax = 1;
  bool calibrated = false;
  Sim() : in(&ib), out(&ob) {}
  ~Sim() { destroy(); }
  void destroy() {
    if (v.obj) ad::sim_destroy(v, placed);
    v = ad::SimView();
    if (buf) { free(buf); buf = nullptr; }
  }
  // fill < 0: heap object, memory explicitly zeroed by the harness afterwards (zeroMem)
  // fill >= 0: the object is constructed by placement-new into a buffer pre-filled with that byte (buffer reused between calls)
  void create(int fill = -1, size_t maxCycles = 0, bool zeroMem = true) {
    if (v.obj) { ad::sim_destroy(v, placed); v = ad::SimView(); }
    ib.reset(""); in.clear(); ob.data.clear();
    if (fill >= 0) {
      size_t n = ad::sim_sizeof();
      if (!buf) buf = aligned_alloc(64, (n + 63) / 64 * 64);
      memset(buf, fill, n);
      placed = true;
      v = ad::sim_create(buf, in, out, maxCycles);
    } else {
      if (buf) { free(buf); buf = nullptr; }
      placed = false;
      v = ad::sim_create(nullptr, in, out, maxCycles);
      if (zeroMem) { memset(v.mem, 0, v.memWords * 4); *v.exitCode = 0; }
    }
  }
  void setInput(const std::string &s) { ib.reset(s); in.clear(); }
  // Find a (cycles,maxCycles) pair that makes run() execute exactly one instruction.
  void calibrate() {
    static const size_t pairs[][2] = {{1, 1}, {0, 1}, {1, 2}, {2, 2}, {0, 0}};
    for (auto &p : pairs) {
      if (p[1] == 0) continue;
      create();
      for (size_t i = 0; i < 64; i++) v.mem[i] = 0x31313131;  // LDAC 1 everywhere
      *v.cycles = p[0]; *v.maxCycles = p[1]; *v.running = true;
      int kind; std::string err;
      ad::sim_run(v, &kind, &err);
      if (kind == 0 && *v.pc == 1 && *v.areg == 1) { stepCycles = p[0]; stepMax = p[1]; calibrated = true; return; }
    }
    mc::harness_fail("cannot single-step hexsim::Processor::run with any (cycles,maxCycles) setting");
  }
  // Uninterrupted run of exactly k instructions in ONE call of run() (or fewer if the program exits): calibrated like step().
  size_t kCycles = 0; long kMaxDelta = -1; bool kCalibrated = false;
  void calibrateK() {
    static const long opts[][2] = {{0, -1}, {1, 0}, {0, 0}, {1, 1}, {2, 1}};
    for (auto &o : opts) {
      create();
      for (size_t i = 0; i < 64; i++) v.mem[i] = 0x31313131;
      *v.cycles = o[0]; *v.maxCycles = 5 + o[1]; *v.running = true;
      int kind; std::string err; ad::sim_run(v, &kind, &err);
      if (kind == 0 && *v.pc == 5) { kCycles = o[0]; kMaxDelta = o[1]; kCalibrated = true; return; }
    }
    mc::harness_fail("cannot make hexsim::Processor::run execute exactly k instructions with any (cycles,maxCycles) setting");
  }
  int runK(size_t k, int *kind, std::string *err) {
    if (k == 1) return step(kind, err);
    *v.cycles = kCycles; *v.maxCycles = k + kMaxDelta; *v.running = true;
    return ad::sim_run(v, kind, err);
  }
  // Execute exactly one instruction. kind!=0 => exception (what in err)
  int step(int *kind, std::string *err) {
    *v.cycles = stepCycles; *v.maxCycles = stepMax; *v.running = true;
    return ad::sim_run(v, kind, err);
  }
};

inline std::string regs(uint32_t pc, uint32_t a, uint32_t b, uint32_t o) {
  char buf[96]; snprintf(buf, sizeof buf, "pc=%u a=0x%08x b=0x%08x o=0x%08x", pc, a, b, o); return buf;
}

}  // namespace simh
