// Runs RefX over selftest/x_expectations.json (extracted from the repository's unit tests) and over a file given on the command line.
#include "common/mc.hpp"
#include "common/refx.hpp"
using namespace mc;
int main(int argc, char **argv) {
  if (argc >= 2 && std::string(argv[1]) != "--selftest") {
    auto o = refx::run(slurp(argv[1]), argc > 2 ? unhex(argv[2]) : "", 100000000, 5000);
    printf("status=%d reason=%s exit=%d out_hex=%s consumed=%zu steps=%llu depth=%d\n", o.status, o.reason.c_str(), o.exitValue, hexs(o.out).c_str(), o.consumed, (unsigned long long)o.steps, o.maxDepth);
    return 0;
  }
  JV v; if (!jparse(slurp(std::string(getenv("VERIF_DIR") ? getenv("VERIF_DIR") : "/verif") + "/selftest/x_expectations.json"), v)) { printf("cannot parse\n"); return 2; }
  int ok = 0, dropped = 0, bad = 0;
  for (auto &e : v.a) {
    auto o = refx::run(e.str("source"), unhex(e.str("input_hex")), 50000000, 5000);
    if (o.status != refx::Outcome::OK) { dropped++; printf("DROPPED %-40s status=%d %s\n", e.str("test").c_str(), o.status, o.reason.c_str()); continue; }
    bool good = true;
    if (e.get("exit") && (int32_t)e.num("exit") != o.exitValue) good = false;
    if (e.get("stdout_hex") && unhex(e.str("stdout_hex")) != o.out) good = false;
    if (good) ok++; else { bad++; printf("MISMATCH %s: refx exit=%d out=%s expected exit=%lld out=%s\n", e.str("test").c_str(), o.exitValue, hexs(o.out).c_str(), (long long)e.num("exit", -999), e.str("stdout_hex").c_str()); }
  }
  printf("agree=%d dropped=%d mismatch=%d\n", ok, dropped, bad);
  return bad ? 1 : 0;
}
