# setup: prebuild adapters, Verilated models, repository executables and all checkers for the current /repo tree (offline).
setup:
	python3 bin/check --setup
clean:
	rm -rf build replay
.PHONY: setup clean
